"""KNOWN_FINDINGS.jsonl: one JSON object per line
   {"property": "C09", "status": "open"|"fixed", "key": {...}, "what": "...", "commit": "..."}
An `open` entry suppresses exactly the violations whose key contains every (k, v) of the entry's key
(the check builds keys in its own canonical encoding); `fixed` entries suppress nothing.
The file is never written at run time."""
import json, os
VERIF = os.path.dirname(os.path.dirname(os.path.abspath(__file__)))
PATH = os.path.join(VERIF, "KNOWN_FINDINGS.jsonl")


def load():
    out = []
    if os.path.exists(PATH):
        for line in open(PATH):
            line = line.strip()
            if line and not line.startswith("#"): out.append(json.loads(line))
    return out


def match(property_id, key, findings=None):
    """key: dict describing the failing case.  Returns the open finding that lists it, or None."""
    for f in (findings if findings is not None else load()):
        if f.get("status") != "open": continue
        if property_id not in ([f["property"]] + f.get("also", [])): continue
        if all(key.get(k) == v for k, v in f["key"].items()):
            return f
    return None
