"""Run TLC (model check / simulate / trace validation) and parse what the checks need.

stdlib only.  Every run gets its own metadir under /verif/out/tlc and removes it afterwards.
"""
import os, re, shutil, subprocess, tempfile, time, json, itertools

VERIF = os.path.dirname(os.path.dirname(os.path.abspath(__file__)))
SPECS = os.path.join(VERIF, "specs")
OUT = os.path.join(VERIF, "out")
JAR = "/opt/veriftools/tla/tla2tools.jar"
CP = JAR + ":/opt/veriftools/tla/CommunityModules-deps.jar:/opt/veriftools/tla/CommunityModules.jar"


class TLCError(Exception):
    """machinery failure (parse error, TLC crash, timeout): exit 2, never a violation"""


class TLCResult:
    def __init__(self):
        self.generated = 0; self.distinct = 0; self.depth = 0
        self.violated = None        # ("invariant"|"property"|"deadlock"|"postcondition"|"assert", name)
        self.output = ""; self.wall = 0.0
        self.cex = []               # counterexample states as text blocks
        self.printed = []           # PrintT lines (raw)
        self.coverage = {}          # action name -> (distinct, total)

    @property
    def ok(self): return self.violated is None


def _classpath():
    # the `tlc` wrapper on PATH knows the class path; reproduce it so that JVM options can be passed
    cands = [JAR]
    d = os.path.dirname(JAR)
    for f in sorted(os.listdir(d)):
        if f.endswith(".jar") and os.path.join(d, f) != JAR:
            cands.append(os.path.join(d, f))
    return ":".join(cands)


def run(module, cfg, workers=None, simulate=None, depth=None, seed=None, env=None, coverage=False,
        timeout=1800, extra=(), specdir=SPECS, dfs_queue=False, cont=False, heap="4g", dump=None):
    """module: 'Foo' (Foo.tla in specdir); cfg: file name in specdir (or absolute path)."""
    os.makedirs(os.path.join(OUT, "tlc"), exist_ok=True)
    meta = tempfile.mkdtemp(prefix="md_", dir=os.path.join(OUT, "tlc"))
    cfgp = cfg if os.path.isabs(cfg) else os.path.join(specdir, cfg)
    jopts = ["-XX:+UseParallelGC", "-Xmx" + heap, "-Djava.io.tmpdir=" + meta]      # (TLC's own temporary files go with the run's metadir)
    if dfs_queue:
        jopts.append("-Dtlc2.tool.queue.IStateQueue=StateDeque")
    cmd = ["java"] + jopts + ["-cp", _classpath(), "tlc2.TLC", "-metadir", meta, "-noGenerateSpecTE",
                              "-config", cfgp]
    if workers is None:
        workers = "auto" if simulate is None else 1
    cmd += ["-workers", str(workers)]
    if simulate is not None:
        cmd += ["-simulate", simulate]
        if depth: cmd += ["-depth", str(depth)]
    if seed is not None: cmd += ["-seed", str(seed)]
    if coverage: cmd += ["-coverage", "1"]
    if cont: cmd += ["-continue"]
    if dump: cmd += ["-dump", dump[0], dump[1]]
    cmd += list(extra) + [os.path.join(specdir, module + ".tla")]
    e = dict(os.environ)
    if env: e.update({k: str(v) for k, v in env.items()})
    t0 = time.time()
    # (the output of a generator run can be gigabytes: it goes to a file and is read back once, instead of being held as bytes and
    # as text at the same time)
    outp = os.path.join(meta, "stdout.txt")
    try:
        with open(outp, "wb") as oh:
            p = subprocess.run(cmd, cwd=specdir, env=e, stdout=oh, stderr=subprocess.STDOUT, timeout=timeout)
    except subprocess.TimeoutExpired as ex:
        shutil.rmtree(meta, ignore_errors=True)
        raise TLCError("TLC timeout after %ss: %s %s" % (timeout, module, cfg)) from ex
    with open(outp, "r", errors="replace") as ih:
        stdout = ih.read()
    shutil.rmtree(meta, ignore_errors=True)
    r = parse(stdout); r.wall = time.time() - t0; r.returncode = p.returncode; r.cmd = cmd
    if r.violated is None and p.returncode != 0 and not re.search(r"Model checking completed|Finished in|Progress\(", stdout[-20000:] + stdout[:20000]):
        raise TLCError("TLC failed (%s):\n%s" % (p.returncode, stdout[-3000:]))
    return r


_ERR = [
    (re.compile(r"Error: Invariant (\S+) is violated"), "invariant"),
    (re.compile(r"Error: Action property (\S+) is violated"), "property"),
    (re.compile(r"Error: Temporal propert(?:y \S+ was|ies were) violated"), "liveness"),
    (re.compile(r"Error: Deadlock reached"), "deadlock"),
    (re.compile(r"Error: Postcondition (\S+)"), "postcondition"),
    (re.compile(r"Error: Evaluating (?:invariant|assumption) (\S+) failed"), "evalfail"),
    (re.compile(r"Error: Assumption .* is false"), "assumption"),
    (re.compile(r"Error: The first argument of Assert evaluated to FALSE"), "assert"),
]


def parse(out):
    r = TLCResult(); r.output = out
    m = None
    for m in re.finditer(r"(\d+) states generated, (\d+) distinct states found", out): pass
    if m: r.generated, r.distinct = int(m.group(1)), int(m.group(2))
    m = re.search(r"The depth of the complete state graph search is (\d+)", out)
    if m: r.depth = int(m.group(1))
    for rx, kind in _ERR:
        m = rx.search(out)
        if m:
            name = m.group(1) if m.groups() and m.group(1) else kind
            r.violated = (kind, name.rstrip(".")); break
    if r.violated is None:
        m = re.search(r"^Error: (.*)$", out, re.M)
        if m and "Model checking completed. No error" not in out:
            # parse errors, evaluation errors ... = machinery failure
            raise TLCError("TLC error: " + out[max(0, m.start() - 200): m.start() + 3000])
    # counterexample states
    r.cex = re.findall(r"^State \d+: .*?\n(.*?)(?=^State \d+:|^\d+ states generated|^Error:|\Z)", out, re.M | re.S) if r.violated else []
    for m in re.finditer(r"^<(\w+) line (\d+), col \d+ to line \d+, col \d+ of module (\w+)>: (\d+):(\d+)", out, re.M):
        r.coverage[m.group(1)] = (int(m.group(4)), int(m.group(5)))
    return r


def sany(module, specdir=SPECS):
    p = subprocess.run(["java", "-cp", _classpath(), "tla2sany.SANY", os.path.join(specdir, module + ".tla")],
                       cwd=specdir, stdout=subprocess.PIPE, stderr=subprocess.STDOUT, text=True)
    return p.returncode == 0 and "Semantic errors" not in p.stdout and "***Parse Error***" not in p.stdout, p.stdout


def write_cfg(path, constants=None, spec=None, init=None, next=None, invariants=(), properties=(),
              constraint=(), action_constraint=(), view=None, postcondition=None, deadlock=False, symmetry=None,
              overrides=None):
    """Emit a cfg with literal constants (no indirection: `N <- TraceN` was quadratic)."""
    L = []
    if constants:
        L.append("CONSTANTS")
        for k, v in constants.items(): L.append("  %s = %s" % (k, tla(v)))
    if overrides:
        L.append("CONSTANTS")
        for k, v in overrides.items(): L.append("  %s <- %s" % (k, v))
    if spec: L.append("SPECIFICATION " + spec)
    if init: L.append("INIT " + init)
    if next: L.append("NEXT " + next)
    for i in invariants: L.append("INVARIANT " + i)
    for i in properties: L.append("PROPERTY " + i)
    for i in ([constraint] if isinstance(constraint, str) else constraint): L.append("CONSTRAINT " + i)
    for i in ([action_constraint] if isinstance(action_constraint, str) else action_constraint): L.append("ACTION_CONSTRAINT " + i)
    if view: L.append("VIEW " + view)
    if symmetry: L.append("SYMMETRY " + symmetry)
    if postcondition: L.append("POSTCONDITION " + postcondition)
    L.append("CHECK_DEADLOCK " + ("TRUE" if deadlock else "FALSE"))
    os.makedirs(os.path.dirname(path), exist_ok=True)
    with open(path, "w") as f: f.write("\n".join(L) + "\n")
    return path


def tla(v):
    """python value -> TLA+ literal usable in a cfg (ints, bools, strings, sets/frozensets of those)."""
    if isinstance(v, bool): return "TRUE" if v else "FALSE"
    if isinstance(v, int): return str(v)
    if isinstance(v, str): return '"%s"' % v
    if isinstance(v, (set, frozenset)): return "{" + ", ".join(tla(x) for x in sorted(v, key=repr)) + "}"
    if isinstance(v, (list, tuple)): return "<<" + ", ".join(tla(x) for x in v) + ">>"
    raise TypeError(v)


def printed_json(result, sample=None, seed=0):
    """PrintT(ToJson(x)) lines are doubly encoded; return the decoded, de-duplicated objects in order.
    sample=N: keep a uniform sample of at most N of them (reservoir sampling while reading: the output of an exhaustive generator
    can be gigabytes, the decoded objects several times that)."""
    import io, random as _random
    seen = set(); outl = []; n = 0; rng = _random.Random(seed)
    out = result.output; pos = 0; end = len(out)
    while pos < end:
        nl = out.find("\n", pos)
        if nl < 0: nl = end
        if not (out.startswith('"{', pos) or out.startswith('"[', pos)):
            pos = nl + 1; continue
        l = out[pos:nl]; pos = nl + 1
        h = hash(l)
        if h in seen: continue
        seen.add(h); n += 1
        if sample is not None and len(outl) >= sample:
            j = rng.randrange(n)
            if j < sample:
                try: outl[j] = json.loads(json.loads(l))
                except Exception: pass
            continue
        try: outl.append(json.loads(json.loads(l)))
        except Exception: pass
    try: result.printed_total = n
    except Exception: pass
    return outl


# ---------------------------------------------------------------------------------------------
# batched trace validation

def validate_traces(trace_module, cfg, traces, workdir=None, timeout=1800, specdir=SPECS, env=None, heap="6g", dfs_queue=False):
    """traces: list of lists of event dicts.  Writes one JSON file, runs TLC once (-workers 1),
    returns (TLCResult, rejected) where rejected = {trace index (0-based): (line reached (1-based), reason)}.
    The trace module must follow the convention of specs/TraceBase: registers TLCSet(i, max line), the
    POSTCONDITION prints <<"REJECTED", f>> with f a function id -> <<line, event>>; invariants are named
    per clause and on violation the state holds t (trace id) and l (line)."""
    os.makedirs(os.path.join(OUT, "traces"), exist_ok=True)
    fd, path = tempfile.mkstemp(prefix="tr_", suffix=".json", dir=os.path.join(OUT, "traces"))
    with os.fdopen(fd, "w") as f: json.dump(traces, f)
    e = {"TRACE_FILE": path}
    if env: e.update(env)
    try:
        r = run(trace_module, cfg, workers=1, env=e, timeout=timeout, specdir=specdir, cont=True, heap=heap, dfs_queue=dfs_queue)
    finally:
        if not os.environ.get("VERIF_KEEP_TRACES"):
            try: os.unlink(path)
            except OSError: pass
    rejected = {}
    out = r.output
    # invariant violations under -continue: each prints "Error: Invariant X is violated." then the behaviour;
    # the last state of each contains "/\ t = N" and "/\ l = M"
    for m in re.finditer(r"Error: Invariant (\S+) is violated\.(.*?)(?=Error: Invariant|\Z|\d+ states generated)", out, re.S):
        name = m.group(1); body = m.group(2)
        ts = re.findall(r"/\\ t = (\d+)", body); ls = re.findall(r"/\\ l = (\d+)", body)
        if ts:
            ti = int(ts[-1]) - 1
            rejected.setdefault(ti, (int(ls[-1]) - 1 if ls else -1, "invariant " + name))
    mk = re.search(r'<<\s*"REJECTED"', out)
    k = mk.start() if mk else -1
    if k >= 0:
        # {<<trace id, line reached, "blocking clause">>, ...} possibly wrapped over many lines
        end = out.find("Error:", k)
        for mm in re.finditer(r'<<(\d+),\s*(\d+),\s*"([^"]*)">>', out[k: end if end > 0 else len(out)]):
            ti = int(mm.group(1)) - 1
            rejected.setdefault(ti, (int(mm.group(2)), mm.group(3)))
        if not rejected:
            raise TLCError("cannot parse REJECTED block: " + out[k:k + 500])
    if r.violated and not rejected:
        raise TLCError("trace validation failed without a parsable rejection:\n" + out[-3000:])
    return r, rejected
