"""evidence/<id>.json writer (schema: /root/.vp/EVIDENCE.schema.json) - written from what the run measured."""
import json, os, time
VERIF = os.path.dirname(os.path.dirname(os.path.abspath(__file__)))


def write(property_id, tier, seed, level, coverage, wall_s, violations=0, assumptions=()):
    ev = {"property_id": property_id, "tier": tier, "seed": int(seed), "level": level,
          "coverage": coverage, "assumptions": list(assumptions), "wall_s": round(float(wall_s), 2),
          "violations": int(violations)}
    edir = os.environ.get("VERIF_EVIDENCE_DIR") or os.path.join(VERIF, "evidence")      # (override: experiments on scratch trees)
    os.makedirs(edir, exist_ok=True)
    p = os.path.join(edir, property_id + ".json")
    tmp = p + ".tmp%d" % os.getpid()
    with open(tmp, "w") as f: json.dump(ev, f, indent=1, sort_keys=True, default=_default)
    os.replace(tmp, p)
    return p


def _default(o):
    if isinstance(o, (set, frozenset)): return sorted(o, key=repr)
    if isinstance(o, bytes): return o.decode("latin1")
    return repr(o)
