"""Regenerates MANIFEST.json from the table below (single source of truth for what is claimed)."""
import json, os
V = "/verif"
props = [json.loads(l) for l in open(V + "/properties.jsonl")]
PAR_NOTE = ("Trusted base: TLC; the recorder (events are logged at the observable boundary: input iterator, backend.submit, task body, "
            "callback wrapper, consumer); ControlledBackend implements only the documented ParallelBackendBase API; virtual clock replaces "
            "joblib.parallel.time. Bounds: N <= 30 tasks, n_jobs <= 3, <= 3 calls per object.")
CHECKS = {
 "C01": dict(level="model_checking", design="5/C01", technique="TLA+ abstract spec (ParallelAbs) + TLC batched trace validation of real executions enumerated by stateless DFS over a controlled backend; TLC model check of ParallelDesign",
             text="Every explored execution of the real Parallel (all completion orders x callback placements for small N, seeded walks beyond) is accepted by the abstract TLA+ contract (exactly-once, in-order, nothing lost); the implementation-shaped model is model-checked for the same invariants.", note=PAR_NOTE),
 "C04": dict(level="model_checking", design="5/C04", technique="TLA+ ParallelAbs clauses (failure surfaces, timeout, termination, clean reuse) judged by TLC on recorded traces of fail/succeed/fail call sequences with late completions; virtual clock",
             text="Failure/timeout/iterator-error outcomes and reuse after failure are judged by TLC on every explored execution, including stale completions delivered during abort, between calls and inside the next call.", note=PAR_NOTE),
 "C09": dict(level="model_checking", design="5/C09", technique="TLA+ ParallelAbs clauses (look-ahead bound, in-flight batches, single puller, stop after failure/close) judged by TLC on recorded traces",
             text="Input consumption of every explored execution satisfies the look-ahead / in-flight / single-thread / stop clauses of the abstract spec; the growth during the initial dispatch loop (D9) is a recorded known finding.", note=PAR_NOTE),
 "C16": dict(level="model_checking", design="5/C16", technique="TLA+ ParallelAbs clauses (promptness, completion order, overlap rejected, clean abandon) judged by TLC on recorded traces with a scripted consumer (next/close/call-again at every point)",
             text="Generator-mode executions with every consumer decision (next, close, call again) at every point are accepted by the abstract spec.", note=PAR_NOTE),

 "C05": dict(level="fault_enumeration", design="5/C05", technique="TLA+/PlusCal file-system model (CacheFS) checked by TLC with crash and torn-write actions; exhaustive crash-point enumeration of the real code under an LD_PRELOAD interposer with fresh-process recovery",
             text="Every mutating file-system call of each workload is a crash point (plus torn writes); after each crash three fresh readers (plain, call_and_shelve, expires_after) must get correct values and every final-name file must load. The same crash/recovery histories are model-checked on CacheFS.",
             note="Trusted base: TLC; fsshim.so sees libc calls under the cache root; crash = process death (no power-loss reordering); pure-Python joblib (numpy absent)."),
 "C07": dict(level="exploration", design="5/C07", technique="TLA+ transcription of Python's binding rules (ArgBinding) enumerated by TLC; one implementation test of filter_args per state, oracle cross-checked against CPython's real binding",
             text="Exhaustive over all signatures with <= 4 (quick) / <= 5 (thorough) parameters and all call shapes Python accepts, for plain functions and bound methods, with ignore lists.",
             note="Trusted base: TLC as enumerator; CPython as second anchor of the oracle (disagreement = machinery failure)."),
 "C11": dict(level="model_checking", design="5/C11", technique="TLA+/PlusCal CacheFS model of 2-3 concurrent processes checked by TLC; TLC-simulated and pre-emption-bounded schedules replayed on real processes/threads at file-system-call granularity (LD_PRELOAD turn-based scheduler); final-state and step conformance of the real directory against the model",
             text="All interleavings of the model for 2-3 participants are model-checked; on the real code every schedule with <= 2 pre-emptions between two participants (strided in quick), TLC-simulated schedules and random ones are enforced call by call and every participant's result checked.",
             note="Trusted base: TLC; interleaving granularity = libc file-system calls under the cache root; 2-3 participants."),

 "C02": dict(level="model_checking", design="5/C02", technique="TLA+ MemoryDesign (histories) checked by TLC + ArgBinding-generated programs of cached calls (equivalent forms, near-colliding values, ignore lists, methods/async/partials, compression, fresh process) judged against the undecorated function",
             text="History dimension model-checked on MemoryDesign; input dimension: every signature with <= 3 (thorough: 4) parameters from the TLC enumeration of ArgBinding, several call shapes each, one-parameter perturbations to near-colliding typed values: the cached call must return what the plain function returns.",
             note="Trusted base: TLC; ArgBinding.tla (cross-checked against CPython by C07); generated functions are pure."),
 "C06": dict(level="model_checking", design="5/C06", technique="TLA+ MemoryDesign action property HitWhenDue + ArgBinding equivalence classes of call forms replayed on real Memory (execution counting, check_call_in_cache, acceptance), same and fresh process",
             text="Equivalent call forms (same ArgBinding image, spelled-out defaults, rebuilt dicts/sets, ignored parameters) of a completed call must not execute the body again, in the same and in a fresh process; check_call_in_cache must predict it; every accepted call is accepted by the wrapper.",
             note="Trusted base: TLC; ArgBinding.tla; execution counter inside the generated functions. Open finding D14 (partials across processes)."),
 "C12": dict(level="model_checking", design="5/C12", technique="TLA+ MemoryDesign (define / swap __code__ / call / restart / clear / evict over same-named functions, several stores) model-checked by TLC; all behaviours of bounded length and TLC-simulated longer ones replayed on real Memory sessions",
             text="All histories of the model are checked for ValueCorrect/HitWhenDue (with the repaired defects D6, D13 switched off TLC finds their counterexamples); generated histories are replayed for module-level, nested, lambda and __main__ functions.",
             note="Trusted base: TLC; sessions are sequential (one live process at a time) as in the property's quantifier; two simultaneously live processes are a documented limit."),
 "C18": dict(level="model_checking", design="5/C18", technique="declarative TLA+ spec of the minimal LRU prefix (Eviction) enumerated by TLC with its set of valid answers; each state materialised as a real cache directory and reduce_size called",
             text="Exhaustive over canonical stores with <= 3 items x limit combinations (thorough; sampled in quick, plus 4-item stores): the evicted set must be one of the valid answers, survivors load, evicted entries recompute.",
             note="Trusted base: TLC; tie-tolerant reading of LRU order; age boundaries avoided by half a step."),

 "C03": dict(level="exploration", design="5/C03", technique="TLA+ decision table (Persist) and object-graph enumerator (ObjGraph) run by TLC; one round-trip test per state (all targets, renamed to every extension), identity-preserving isomorphism check, payload size classes, dumps embedded at offsets; TLA+ Sniffing (compressor registry over the history of a process) model-checked and its histories replayed",
             text="Every configuration of the dump lattice is checked against the decision table and round-tripped through every target and name; ~7k enumerated object graphs with sharing/cycles are round-tripped; size classes around buffer boundaries.",
             note="Fidelity is decided by comparison with the original object; the specification decides writer/reader selection and enumerates. lz4 not installed."),
 "C13": dict(level="model_checking", design="5/C13", technique="TLA+ reference stream (ZlibStream): TLC generates every operation sequence of bounded length with its dictated responses; replayed on BinaryZlibFile/BinaryGzipFile with io.BytesIO as second oracle; write side decoded by zlib/gzip",
             text="All operation sequences of length 3 (quick) / 4 (thorough) over boundary operands and payload sizes are replayed on both classes; write chunkings x levels decoded by the standard decoders.",
             note="Trusted base: TLC; zlib/gzip from the standard library as decoders."),
 "C14": dict(level="fault_enumeration", design="5/C14", technique="TLA+ model of the refill loop (ZlibFill) with liveness (Terminates) checked by TLC for every raw-file shape; truncations and trailing bytes of real joblib files loaded under a watchdog; damaged cache entries recomputed",
             text="Every raw-file shape of the refill loop terminates in the model; on the real code every truncation (all lengths for small files in thorough) and 5 kinds of trailing bytes for 6 compressors incl. block-boundary-tuned files: load must terminate and raise or return the original; every truncation of a cached output.pkl must lead to recomputation.",
             note="Trusted base: TLC; watchdog 10 s and 3 GiB address-space limit define hang / runaway."),

 "C20": dict(level="model_checking", design="5/C20", technique="TLA+ ResourceTracker spec model-checked by TLC (action properties DeletedOnlyWhenDue / DeletedWhenDue); TLC-generated request sequences sent to a real resource_tracker.main on a private pipe with a sentinel barrier; reference counts from the guarded hook trace compared with the model",
             text="All sequences of <= 3 (thorough: 4) requests from 2 clients over files, a folder, a file inside it, nested folders, malformed lines and client exits, plus simulated sequences up to 10 requests: after every request the set of existing paths must equal the model's, the tracker must stay alive, and the final clean-up must delete exactly what is still registered.",
             note="Trusted base: TLC; clients are write ends of the pipe held by the driver; the hook (JOBLIB_VERIF_TRACE) is only used for the count-level drift measure."),

 "C08": dict(level="exploration", design="5/C08", technique="TLA+ term universe (Hasher) enumerated by TLC: the digest must be a function of the term and injective on terms; every term built in several construction orders / aliasing variants and hashed with md5 and sha1 under several PYTHONHASHSEED",
             text="Exhaustive over ~12k terms (depth <= 2, <= 2 elements per container): all digests of one term coincide over 3 construction orders, shared vs distinct string objects and 3-4 hash seeds; all-pairs discrimination by bucketing digests.",
             note="The specification defines the universe and value identity; the digests come from the implementation. Open finding D17 (aliased tuples)."),
 "C17": dict(level="model_checking", design="5/C17", technique="TLA+ ConfigScope (per-thread stacks of frames, resolution and backend-kind rules, process-wide default backend kind, availability of process backends) model-checked by TLC; TLC-generated enter/exit programs replayed on two real threads, every thread observing Parallel with 9 explicit-argument variants after every step",
             text="Isolation/restoration/sharedmem/explicit-backend rules are checked on the model; all programs of 3 actions (exhaustive in thorough) and simulated programs up to depth 4 are replayed and every resolved setting compared with the specification.",
             note="Trusted base: TLC; backend names are bound to recording backends via register_parallel_backend. Open finding D11 (context n_jobs lost when threads are forced)."),

 "C10": dict(level="fault_enumeration", design="5/C10", technique="TLA+ LokyExecutor (workers, call queue, result-pipe lock, manager thread with sentinel snapshots, exit-code collection, two-step terminate_broken, kill tree + join, broken flag) checked by TLC incl. liveness NoHang; fault scenarios (stage x signal x victims x with-block x SIGCHLD disposition, workers with children) executed against the real loky backend",
             text="The executor model is checked for NoHang / NoPartialResults / FailsOnlyOnFault with kills at every worker state; 43 (quick) to ~130 (thorough) real scenarios kill workers at exact life-cycle stages and check prompt TerminatedWorkerError, no partial results, one failing call per fault, healthy following calls.",
             note="Trusted base: TLC; stages are hit without timing except 'while sending'; watchdog 40 s per call."),
 "C15": dict(level="model_checking", design="5/C15", technique="TLA+ NJobs (cpu_count / effective n_jobs table, nesting machine) checked and enumerated by TLC; every row evaluated under a real affinity mask; gated tasks measure the concurrency high-water mark; TLA+ ExecutorResize (reusable executor over histories of n_jobs: replace / three-step resize, sentinels, idle time-outs) model-checked, its histories replayed with gated tasks; nested Parallel programs report pids and backends",
             text="All rows of the arithmetic table (affinity x LOKY_MAX_CPU_COUNT x backend x n_jobs in [-2c, 2c]) are compared with the real functions; high-water mark <= resolved n_jobs on threading/loky/multiprocessing; nested calls (depth 2-3) never create processes below level 0.",
             note="Trusted base: TLC; quiescence detection for the high-water mark (count stable for 1-1.5 s); cgroup quota assumed non-binding."),
 "C19": dict(level="exploration", design="5/C19", technique="TLA+ ArrayLayout (padding arithmetic for every file position, memmap admissibility) enumerating dtype x shape x layout x compressor x mmap_mode x container; real dump/load and loky auto-memmapping under python3-vt compared with the original arrays",
             text="~1.5k (quick) / 20k (thorough) sampled cases from the enumeration incl. mixed-endian records, item sizes not dividing the read chunk, memmap-backed transposed/reversed views; dtype/shape/order/bytes compared, memory maps checked for 16-byte aligned offsets, arrays around max_nbytes passed to loky workers.",
             note="Runs on Python 3.11 + numpy 2.4 (python3-vt) because /venv has no numpy. Open finding D18 (byte order normalised on load)."),
}
NA_REASON = "check not built yet (construction in progress, see DESIGN.md section 8c build order)"
M = {"version": 1, "setup_cmd": "make -C /verif",
     "hooks": {"guard": "JOBLIB_VERIF_TRACE", "enable": "export JOBLIB_VERIF_TRACE=<ndjson path> (unset = hooks are dead code)",
               "baseline_off_cmd": "cd /repo && env -u JOBLIB_VERIF_TRACE /venv/bin/python -m pytest -ra -q -p no:cacheprovider --timeout=900 --continue-on-collection-errors",
               "source_commits": ["b04fb3b"], "add_only": True},
     "engines": [{"name": "tlc", "path": "engine/tlc.py", "serves_properties": sorted(CHECKS), "kind_free_text": "TLC 1.8 runner: model check, simulate, batched trace validation (specs/*.tla)"},
                 {"name": "parallel-drivers", "path": "harness/pl1.py", "serves_properties": ["C01", "C04", "C09", "C16"], "kind_free_text": "controlled backend + deterministic drivers of the real joblib.Parallel"},
                 {"name": "memory-programs", "path": "checks/memargs.py", "serves_properties": ["C02", "C06", "C12", "C18"], "kind_free_text": "generated programs / histories / stores replayed on real joblib.Memory"},
                 {"name": "persistence-workers", "path": "harness/persist_worker.py", "serves_properties": ["C03", "C13", "C14"], "kind_free_text": "round-trip / stream / damaged-file workers"},
                 {"name": "tracker-driver", "path": "harness/tracker_worker.py", "serves_properties": ["C20"], "kind_free_text": "drives loky's resource tracker on a private pipe"},
                 {"name": "fs-interposer", "path": "harness/fsctl.py", "serves_properties": ["C05", "C11"], "kind_free_text": "LD_PRELOAD interposer + controller: crash injection, torn writes, turn-based scheduling of real processes"}],
     "checks": [], "notes": "see DESIGN.md; KNOWN_FINDINGS.jsonl lists repaired (fixed) and open findings",
     "not_applicable": []}
for p in props:
    pid = p["id"]
    if pid in CHECKS:
        c = CHECKS[pid]
        M["checks"].append({"property_id": pid, "quick_cmd": "./check %s --tier quick" % pid, "thorough_cmd": "./check %s --tier thorough" % pid,
                            "evidence_file": "/verif/evidence/%s.json" % pid, "replay_cmd_template": "./check %s --replay {path}" % pid,
                            "engine": "tlc", "level_claimed": {"category": c["level"], "text": c["text"], "design_ref": c["design"]},
                            "level_note": c["note"], "technique": c["technique"]})
    else:
        M["not_applicable"].append({"property_id": pid, "reason": NA_REASON})
json.dump(M, open(V + "/MANIFEST.json", "w"), indent=1)
print("checks:", [c["property_id"] for c in M["checks"]], "n/a:", len(M["not_applicable"]))
