#!/bin/sh
# verify_queue2.sh <base> <ks> <prop>...  : sequentially confirm the listed mutants (background job); e.g. verify_queue2.sh /tmp/mutwt2 "3 4" C02 C05
B="$1"; KS="$2"; shift 2
for p in "$@"; do for k in $KS; do python3 /verif/tools/verify_mutant.py $p $k $B >> /tmp/mutout/verify.log 2>&1; done; done
echo QUEUE-DONE "$@" >> /tmp/mutout/verify.log
