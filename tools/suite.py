"""Run the repository's pinned test suite in a given tree (default /repo) and compare with BASELINE.json.
usage: suite.py [tree] [pytest args...]   exit 0 iff every stable_pass test passed."""
import sys, os, subprocess, json, tempfile, xml.etree.ElementTree as ET
tree = sys.argv[1] if len(sys.argv) > 1 and os.path.isdir(sys.argv[1]) else "/repo"
extra = [a for a in sys.argv[1:] if a != tree]
fd, xmlp = tempfile.mkstemp(suffix=".xml"); os.close(fd)
env = dict(os.environ); env.pop("JOBLIB_VERIF_TRACE", None)
cmd = ["/venv/bin/python", "-m", "pytest", "-q", "-p", "no:cacheprovider", "--timeout=900",
       "--continue-on-collection-errors", "--junitxml=" + xmlp] + (extra or [])
p = subprocess.run(cmd, cwd=tree, env=env, stdout=subprocess.DEVNULL, stderr=subprocess.DEVNULL)
r = ET.parse(xmlp).getroot(); ts = r if r.tag == "testsuite" else r[0]
print({k: ts.get(k) for k in ("tests", "failures", "errors", "skipped")})
passed = set(); failed = []
for tc in ts.iter("testcase"):
    name = tc.get("classname") + "::" + tc.get("name")
    if any(c.tag in ("failure", "error") for c in tc): failed.append(name)
    elif not any(c.tag == "skipped" for c in tc): passed.add(name)
os.unlink(xmlp)
if failed: print("FAILED:", failed[:20])
if not extra:
    sp = set(json.load(open("/root/.vp/BASELINE.json"))["stable_pass"])
    missing = sorted(sp - passed)
    print("stable_pass %d, missing %d %s" % (len(sp), len(missing), missing[:10]))
    sys.exit(1 if missing or failed else 0)
sys.exit(1 if failed else 0)
