"""Run the quick tier of the owning property's check against every confirmed seeded change (each in its own scratch worktree,
/repo is not touched) and record the outcome in seeded/<id>/meta.json (`detected_by`).  usage: seeded_matrix.py [jobs] [ids...]"""
import sys, os, json, subprocess, glob, re
from concurrent.futures import ThreadPoolExecutor
V = os.path.dirname(os.path.dirname(os.path.abspath(__file__)))
jobs = int(sys.argv[1]) if len(sys.argv) > 1 else 3
only = set(sys.argv[2:])


def one(d):
    name = os.path.basename(d.rstrip("/")); prop = name.split("-")[0]
    p = subprocess.run([os.path.join(V, "tools", "try_mutant_wt.sh"), os.path.join(d, "patch.diff"), "quick", prop], capture_output=True, text=True)
    out = p.stdout
    nv = len(re.findall(r"^VIOLATION property=%s" % prop, out, re.M))
    held = "held on everything explored" in out
    verdict = "VIOLATION" if nv else "HELD" if held else "NOAPPLY" if "PATCH-DOES-NOT-APPLY" in out else "MACHINERY" if "MACHINERY" in out else "?"
    mp = os.path.join(d, "meta.json")
    try: m = json.load(open(mp))
    except Exception: m = {}
    m["detected_by"] = {"check": "%s --tier quick" % prop, "verdict": verdict, "repo_head": subprocess.check_output(["git", "-C", "/repo", "rev-parse", "--short", "HEAD"], text=True).strip()}
    json.dump(m, open(mp, "w"), indent=1)
    print(name, verdict, flush=True)
    return name, verdict


ds = sorted(glob.glob(os.path.join(V, "seeded", "C*-[mh]*")), key=lambda d: (d.rsplit("-", 1)[1][1:], d))     # neighbours = different properties (shared cfg / sim directories)
if only: ds = [d for d in ds if os.path.basename(d) in only]
with ThreadPoolExecutor(max_workers=jobs) as ex:
    res = list(ex.map(one, ds))
json.dump(dict(res), open(os.path.join(V, "out", "seeded_matrix.json"), "w"), indent=1)
print("SUMMARY", {v: sum(1 for _, x in res if x == v) for v in {x for _, x in res}})
