#!/bin/sh
# tools/try_mutant_wt.sh <patch> <tier> <ids...>: run checks against a scratch worktree of /repo with the patch applied
# (/repo itself is not touched; evidence goes to out/evidence_alt).  The worktree is removed afterwards.
P="$(readlink -f "$1")"; TIER="$2"; shift 2
WT="/tmp/mwt/$(basename "$(dirname "$P")")_$$"
mkdir -p /tmp/mwt
git -C /repo worktree add -q --detach "$WT" || exit 2
if ! git -C "$WT" apply "$P" 2>/dev/null; then
  if ! (cd "$WT" && patch -p1 -s --no-backup-if-mismatch < "$P" >/dev/null 2>&1); then echo "PATCH-DOES-NOT-APPLY $P"; git -C /repo worktree remove --force "$WT"; exit 3; fi
fi
for id in "$@"; do
  echo "--- $id on $P"
  VERIF_REPO="$WT" VERIF_EVIDENCE_DIR=/verif/out/evidence_alt /verif/check "$id" --tier "$TIER" 2>&1 | grep -v "^WARNING conda" | grep -E "VIOLATION|KNOWN-FINDING|MACHINERY|held on|DRIFT" | cut -c1-300 | head -8
done
git -C /repo worktree remove --force "$WT"
