"""Builds the prompt given to an independent sub-agent that seeds a property-breaking change.
The agent gets ONLY the property text and its scratch worktree - nothing from /verif."""
import json, sys
DIVERSITY2 = """\nCHOOSING THE SITES: several rounds of people have already seeded regressions for this property at the central, obvious sites and at many secondary ones. Start by listing every PUBLIC entry point, option, parameter value, input kind and environment condition through which the property can be exercised (read the docstrings and the documentation under doc/ as well as the code), including the rarely used ones. Then write down at least ten candidate sites and pick two that are reached only through a less common entry point, option, input kind or combination of two features - but that still clearly contradict the property statement and lie inside its quantifier. Avoid anything whose trigger is merely \"the most common call\".\n"""
DIVERSITY = """\nCHOOSING THE SITES: other people have already seeded the most obvious regressions for this property. Before you choose, read all the code involved and write down at least eight candidate sites (across ALL the files named above, including helper functions, error-handling paths, rarely used options and parameters, platform or version branches that are live on this machine, and interactions between two features); then pick two that are NOT the first ones anyone would think of and that exercise different parts of the property statement and of its quantifier.\n"""
def prompt(pid, wt, ks=(1, 2), diverse=False):
    p = next(json.loads(l) for l in open("/verif/properties.jsonl") if json.loads(l)["id"] == pid)
    extra = ""
    if pid in ("C19",):
        extra = "\nNote: numpy is NOT installed in /venv (numpy-dependent tests are skipped there). For your demonstration use `python3-vt` (Python 3.11 with numpy) with PYTHONPATH=%s; the existing test suite must still be run with /venv/bin/python as shown below.\n" % wt
    return f"""You are helping to evaluate a verification tool by seeding a realistic regression into the Python library joblib. Work ONLY inside your own scratch git worktree {wt} (a detached checkout of joblib). Never modify, and do not read, anything under /repo or /verif.

PROPERTY that joblib is supposed to satisfy ({p['id']}: {p['title']}):
  {p['statement']}
  It must hold over: {p['quantifier']['text']}
  Code involved (relative to the worktree): {', '.join(p['anchors']['files'])}

YOUR TASK: produce TWO different, independent changes to joblib's source code (not to its tests) - each to be applied alone on the clean worktree - such that with the change applied:
  (a) joblib still imports and the ENTIRE existing test suite still passes, exactly as it does on the clean worktree. Suite command (takes about 2-3 minutes):
        cd {wt} && /venv/bin/python -m pytest -q -p no:cacheprovider --timeout=900 joblib 2>&1 | grep -vE '^\\[(DEBUG|INFO)' | tail -15
      (run from the worktree directory so that `import joblib` resolves to {wt}/joblib - verify with `/venv/bin/python -c "import joblib; print(joblib.__file__)"`; you may iterate on the relevant test files first, but run the whole suite once per final change);
  (b) the property above is violated for some input / schedule / crash point / history / configuration;
  (c) the change looks like a plausible regression a maintainer could introduce (refactoring slip, off-by-one, inverted or weakened condition, statement moved out of a lock, reordered statements, missing reset, dropped special case, wrong default...), not sabotage with an obvious marker;
  (d) it needs something SPECIFIC to manifest - a particular interleaving, a crash or fault at a particular point, a multi-step sequence of operations, an unusual input or configuration, or two cooperating sites that each look fine alone - rather than being exposed at once by ordinary use. The two changes should differ in mechanism (different code site / different trigger).
{extra}{(DIVERSITY2 if diverse == 2 else DIVERSITY) if diverse else ""}
For each change k in ({ks[0]}, {ks[1]}) write into {wt}/out/ :
  - m{{k}}.diff      : the patch, produced with `git -C {wt} diff` (must apply to the clean worktree with `git apply`);
  - m{{k}}_demo.py   : a self-contained demonstration program, run as `cd {wt} && PYTHONPATH={wt} /venv/bin/python out/m{{k}}_demo.py`, that exits 0 on the clean worktree and exits non-zero (printing what went wrong) with the patch applied. Make it deterministic whenever possible (events, barriers, a custom backend, a controlled fault injection such as a monkeypatched os function or a killed subprocess) rather than relying on sleeps or luck; if some nondeterminism is unavoidable, loop enough times that it fails reliably and say so;
  - m{{k}}_meta.json : {{"property": "{pid}", "summary": "...", "needs_to_manifest": "...", "files_touched": [...], "suite_result_with_patch": "N passed, M skipped, ...", "demo_clean_exit": 0, "demo_patched_exit": <int>}}.
Verify all of it yourself: demo passes on the clean tree, fails with the patch, full suite passes with the patch. After finishing each change run `git -C {wt} checkout -- .` so that the worktree is clean again (keep the out/ directory, it is untracked). Use scratch files only inside {wt}. Finish with a short report (what each change does, what it needs to manifest, and the suite result)."""
if __name__ == "__main__":
    ks = tuple(int(x) for x in sys.argv[3].split(",")) if len(sys.argv) > 3 else (1, 2)
    print(prompt(sys.argv[1], sys.argv[2], ks, diverse=(2 if len(sys.argv) > 4 and sys.argv[4] == "diverse2" else len(sys.argv) > 4)))
