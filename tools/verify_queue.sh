#!/bin/sh
# verify_queue.sh <prop>...  : sequentially confirm m1 and m2 of each property (background job)
for p in "$@"; do for k in 1 2; do python3 /verif/tools/verify_mutant.py $p $k >> /tmp/mutout/verify.log 2>&1; done; done
echo QUEUE-DONE "$@" >> /tmp/mutout/verify.log
