"""Confirm a seeded change independently and file it under /verif/seeded/<prop>-m<k>/.
usage: verify_mutant.py <prop> <k>   (inputs: /tmp/mutout/<prop>/m<k>.diff, m<k>_demo.py, m<k>_meta.json)
Steps, all in a scratch worktree at the path the agent used (/tmp/mut/<prop>), never in /repo:
  demo on the clean tree -> must exit 0; apply the patch; demo -> must exit non-zero; full pinned suite -> must pass."""
import sys, os, subprocess, json, shutil
prop, k = sys.argv[1], sys.argv[2]
src = "/tmp/mutout/%s" % prop; wt = "%s/%s" % (sys.argv[3] if len(sys.argv) > 3 else "/tmp/mut", prop)
patch = "%s/m%s.diff" % (src, k); demo = "%s/m%s_demo.py" % (src, k); meta = "%s/m%s_meta.json" % (src, k)
def sh(cmd, **kw): return subprocess.run(cmd, shell=True, capture_output=True, text=True, **kw)
sh("git -C /repo worktree remove --force %s; git -C /repo worktree prune" % wt)
r = sh("git -C /repo worktree add -q --detach %s HEAD" % wt); assert r.returncode == 0, r.stderr
res = {"property": prop, "k": k, "repo_head": sh("git -C /repo rev-parse --short HEAD").stdout.strip()}
try:
    os.makedirs(wt + "/out", exist_ok=True); shutil.copy(demo, wt + "/out/m%s_demo.py" % k)
    py = "python3-vt" if prop == "C19" else "/venv/bin/python"
    dcmd = "cd %s && PYTHONPATH=%s timeout 900 %s out/m%s_demo.py" % (wt, wt, py, k)
    r = sh(dcmd); res["demo_clean_exit"] = r.returncode
    a = sh("cd %s && (git apply %s || git apply -3 %s || patch -p1 --no-backup-if-mismatch -s < %s) && git reset -q" % (wt, patch, patch, patch))
    res["applies"] = a.returncode == 0
    if not res["applies"]: res["apply_err"] = a.stderr[-300:]
    else:
        diff = sh("git -C %s diff" % wt).stdout
        r = sh(dcmd); res["demo_patched_exit"] = r.returncode; res["demo_patched_tail"] = (r.stdout + r.stderr)[-600:]
        s = sh("python3 /verif/tools/suite.py %s" % wt); res["suite_ok"] = s.returncode == 0; res["suite_tail"] = s.stdout[-300:]
        ok = res["demo_clean_exit"] == 0 and res["demo_patched_exit"] != 0 and res["suite_ok"]
        res["confirmed"] = ok
        if ok:
            d = "/verif/seeded/%s-m%s" % (prop, k); os.makedirs(d, exist_ok=True)
            open(d + "/patch.diff", "w").write(diff); shutil.copy(demo, d + "/demo.py")
            m = json.load(open(meta)) if os.path.exists(meta) else {}
            json.dump({"property": prop, "breaks": prop, "summary": m.get("summary"), "needs_to_manifest": m.get("needs_to_manifest"),
                       "files_touched": m.get("files_touched"), "origin": "independent sub-agent given only the property text and a scratch worktree",
                       "confirmed_by": {"worktree": wt, "repo_head": res["repo_head"], "demo_clean_exit": res["demo_clean_exit"],
                                        "demo_patched_exit": res["demo_patched_exit"], "suite": res["suite_tail"].strip(),
                                        "commands": [dcmd, "python3 /verif/tools/suite.py " + wt]},
                       "detected_by": None}, open(d + "/meta.json", "w"), indent=1)
finally:
    sh("git -C /repo worktree remove --force %s; git -C /repo worktree prune" % wt)
print(json.dumps({k2: v for k2, v in res.items() if k2 not in ("demo_patched_tail",)}))
