#!/bin/sh
# usage: try_mutant.sh <patch> <tier> <check ids...> : apply the patch to /repo, run the checks, ALWAYS revert
P="$1"; TIER="$2"; shift 2
cd /repo || exit 2
git diff --quiet || { echo "/repo dirty"; exit 2; }
git apply "$P" 2>/dev/null || git apply -3 "$P" || { echo "PATCH DOES NOT APPLY"; git checkout -- .; exit 3; }
for id in "$@"; do
  echo "=== $id on $(basename $(dirname $(dirname $P)))/$(basename $P)"
  (cd /verif && timeout 3000 ./check $id --tier $TIER 2>&1 | grep -E "VIOLATION|KNOWN-FINDING|held on|violation\(s\)|MACHINERY|what:" | sort | uniq -c | sort -rn | head -8; )
done
git -C /repo checkout -- . ; git -C /repo status --short | head -3
