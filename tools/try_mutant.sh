#!/bin/sh
# usage: try_mutant.sh <patch> <tier> <check ids...> : apply the patch to /repo, run the checks, ALWAYS revert
P="$1"; TIER="$2"; shift 2
cd /repo || exit 2
[ -z "$(git status --porcelain --untracked-files=no)" ] || { echo "/repo dirty"; exit 2; }
if ! git apply "$P" 2>/dev/null; then
  # fall back to a 3-way merge (patch made on an older HEAD); keep the index clean afterwards
  git apply -3 "$P" 2>/dev/null || patch -p1 --no-backup-if-mismatch -s < "$P" || { echo "PATCH DOES NOT APPLY"; git reset -q --hard HEAD; exit 3; }
  git reset -q
fi
git diff --stat | tail -1
for id in "$@"; do
  echo "=== $id on $P"
  (cd /verif && timeout 3000 ./check $id --tier $TIER 2>&1 | grep -E "VIOLATION|KNOWN-FINDING|held on|violation\(s\)|MACHINERY|what:" | sed -e 's/replay=.*//' -e 's/at event [0-9]*//' | cut -c1-230 | sort | uniq -c | sort -rn | head -6; )
done
git -C /repo checkout HEAD -- . ; git -C /repo reset -q; git -C /repo status --porcelain --untracked-files=no | head -3
