"""Print the rows of DESIGN.md §5 from the evidence files of the last quick run: id | level | evaluations | TLC distinct states | seconds."""
import json, glob, os
V = os.path.dirname(os.path.dirname(os.path.abspath(__file__)))
for f in sorted(glob.glob(os.path.join(V, "evidence", "C*.json"))):
    e = json.load(open(f)); cov = e.get("coverage", {})
    tl = sum(r.get("distinct", 0) for r in cov.get("tlc_runs", []) if isinstance(r, dict))
    print("| %s | %s | %s | %s | %s | %.0f | %s |" % (e["property_id"], e["level"], e.get("tier"), cov.get("evaluations"), tl, e.get("wall_s", 0), e.get("violations")))
