"""D5c (C05): the process is killed inside the clear() triggered by a source change, after func_code.py was
unlinked but before every entry directory was removed.  A later session with the NEW code stores its source
and then serves the surviving entries computed by the OLD code.  The crash state is reproduced by deleting
what rmtree had deleted at that instant.  Exit 1 if present."""
import os, sys, glob, shutil, subprocess, tempfile, json
base = tempfile.mkdtemp(prefix="d5c", dir=os.environ.get("VERIF_SCRATCH"))
def session(ver, args):
    mod = os.path.join(base, "mod%d" % ver); os.makedirs(mod, exist_ok=True)
    open(os.path.join(mod, "cm.py"), "w").write("def f(x):\n    return ['v%d', x]\n" % ver)
    code = ("import sys, json, warnings; warnings.simplefilter('ignore'); sys.path.insert(0, %r)\n"
            "import joblib, cm\ng = joblib.Memory(%r, verbose=0).cache(cm.f)\nprint(json.dumps([g(a) for a in %r]))" % (mod, os.path.join(base, "cache"), args))
    return json.loads(subprocess.check_output([sys.executable, "-c", code], env=dict(os.environ, PYTHONPATH="/repo"), text=True))
try:
    assert session(1, [3, 4]) == [["v1", 3], ["v1", 4]]
    # crash state of "session with version 2 calls f(3)": source unlinked, the entry of argument 4 already gone, that of 3 still there
    (code,) = glob.glob(os.path.join(base, "cache", "joblib", "cm", "f", "func_code.py")); os.unlink(code)
    r = session(2, [4, 3])
    print("new code returned", r)
    ok = r == [["v2", 4], ["v2", 3]]
finally:
    shutil.rmtree(base, ignore_errors=True)
print("D5c absent" if ok else "D5c present"); sys.exit(0 if ok else 1)
