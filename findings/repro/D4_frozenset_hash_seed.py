"""D4 (C08): joblib.hash of a frozenset of strings depends on PYTHONHASHSEED (iteration order),
so the same value hashes differently in another interpreter.  Exit 1 if present."""
import subprocess, sys, os
code = "import joblib; print(joblib.hash(frozenset(['abc','def','ghi','jkl'])), joblib.hash({'k': frozenset([b'x', b'y', b'z'])}), joblib.hash(frozenset([1,2])) == joblib.hash({1,2}))"
outs = set()
for seed in ("0", "1", "2", "3", "4"):
    env = dict(os.environ, PYTHONHASHSEED=seed, PYTHONPATH="/repo")
    outs.add(subprocess.check_output([sys.executable, "-c", code], env=env, text=True).strip())
for o in sorted(outs): print(o)
bad = len(outs) > 1 or any(o.endswith("True") for o in outs)
print("D4 present" if bad else "D4 absent")
sys.exit(1 if bad else 0)
