"""D16 (C08): joblib.hash of a set / frozenset / dict whose elements or keys are frozensets depends on the insertion order
(frozensets are only partially ordered, so sorted() neither raises nor gives a canonical order).  Exit 1 if present."""
import sys, joblib
a, b = frozenset([1]), frozenset(["a"])
pairs = [({a: 1, b: 2}, {b: 2, a: 1}), (frozenset([a, b]), frozenset([b, a])), ({(a, 1): 0, (b, 1): 0}, {(b, 1): 0, (a, 1): 0})]
s1 = set(); s1.add(a); s1.add(b); s2 = set(); s2.add(b); s2.add(a); pairs.append((s1, s2))
bad = 0
for x, y in pairs:
    assert x == y
    hx, hy = joblib.hash(x), joblib.hash(y)
    print(repr(x)[:60], hx == hy); bad += hx != hy
print("D16 present" if bad else "D16 absent"); sys.exit(1 if bad else 0)
