"""D30 (C04): pool-based backend driven through the legacy retrieval protocol, failing task.  Run: PYTHONPATH=<joblib tree> python D30.py
Before d9a3ade: n_jobs=2 prints EXC TypeError; after: EXC ValueError ('boom', 2)."""
from joblib import Parallel, delayed, register_parallel_backend
from joblib._parallel_backends import ThreadingBackend, MultiprocessingBackend
import warnings; warnings.simplefilter("ignore")
class Legacy(ThreadingBackend):
    supports_retrieve_callback = False
register_parallel_backend("legacy_thr", Legacy)
def boom(i):
    if i == 2: raise ValueError("boom", i)
    return i
for n in (1, 2):
    try:
        print(Parallel(n_jobs=n, backend="legacy_thr")(delayed(boom)(i) for i in range(5)))
    except BaseException as e:
        print(n, "EXC", type(e).__name__, e.args)
    try:
        print(Parallel(n_jobs=n, backend="legacy_thr")(delayed(abs)(-i) for i in range(5)))
    except BaseException as e:
        print(n, "EXC", type(e).__name__, e.args)
