"""D29 (C17): prefer='processes' when no process-based backend exists.  Run: JOBLIB_MULTIPROCESSING=0 PYTHONPATH=<joblib tree> python D29.py
Before the fix: KeyError('loky') at construction; after: the thread-based default is used (prefer is a hint)."""
import os, sys
os.environ["JOBLIB_MULTIPROCESSING"] = "0"
from joblib import Parallel, delayed
try:
    r = Parallel(n_jobs=2, prefer="processes")(delayed(abs)(-i) for i in range(4))
except BaseException as e:
    print("DEFECT:", repr(e)); sys.exit(1)
print("ok", r); sys.exit(0 if r == [0, 1, 2, 3] else 1)
