"""D1 (C04/C01/C10): batches pre-sliced by a failed call are dispatched by the next call
on the same Parallel object.  Exit 1 if the defect is present."""
import sys
from joblib import Parallel, delayed

def task(tag, i):
    if tag == "A" and i == 9:
        raise ValueError("boom")
    return (tag, i)

bad = 0
for trial in range(5):
    p = Parallel(n_jobs=2, backend="threading", batch_size=2, pre_dispatch=2)
    try:
        p(delayed(task)("A", i) for i in range(40))
    except ValueError:
        pass
    out = p(delayed(task)("B", i) for i in range(4))
    if out != [("B", i) for i in range(4)]:
        bad += 1
        print("trial", trial, "second call returned", out)
# deterministic variant: inline (sequentially-completing) backend so no timing is involved
from joblib._parallel_backends import ParallelBackendBase
class Fut:
    def __init__(s, r=None, e=None): s.r, s.e = r, e
    def get(s):
        if s.e: raise s.e
        return s.r
class Inline(ParallelBackendBase):
    supports_retrieve_callback = True
    def effective_n_jobs(self, n_jobs): return 2
    def configure(self, n_jobs=1, parallel=None, **kw): self.parallel = parallel; return 2
    def submit(self, func, callback=None):
        try: f = Fut(func())
        except BaseException as e: f = Fut(e=e)
        self.todo = getattr(self, "todo", []) + [(callback, f)]
        return f
    def retrieve_result_callback(self, out): return out.get()
import joblib.parallel as jp, types, time as _t
be = Inline()
def sleep(_):
    if be.todo:
        cb, f = be.todo.pop(0); cb(f)
jp.time = types.SimpleNamespace(time=_t.time, sleep=sleep)
p = Parallel(n_jobs=2, backend=be, batch_size=1, pre_dispatch=2)
def t2(tag, i):
    if tag == "A" and i == 1: raise ValueError("boom")
    return (tag, i)
try:
    p(delayed(t2)("A", i) for i in range(8))
except ValueError:
    pass
be.todo = []
out = p(delayed(t2)("B", i) for i in range(3))
jp.time = _t
if out != [("B", i) for i in range(3)]:
    bad += 1; print("deterministic variant: second call returned", out)
print("D1 present" if bad else "D1 absent")
sys.exit(1 if bad else 0)
