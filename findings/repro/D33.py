"""D33 (C18): a function whose name starts with 32 hexadecimal digits.  Run: PYTHONPATH=<joblib tree> python D33.py
Before the fix reduce_size(items_limit=3) with 3 results evicts them (the function directory counts as a 4th item)."""
import sys, tempfile, joblib
m = joblib.Memory(tempfile.mkdtemp(), verbose=0)


def f(x): return x


f.__name__ = f.__qualname__ = "deadbeef0123456789abcdef01234567_v2"
g = m.cache(f)
for i in range(3): g(i)
m.reduce_size(items_limit=3)
left = sum(g.check_call_in_cache(i) for i in range(3))
print("results left:", left); sys.exit(0 if left == 3 else 1)
