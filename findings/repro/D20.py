import sys, os, types
from joblib import Memory
mem = Memory("/tmp/d20/cache", verbose=0)
def make(ver):
    src = "def f(x):\n    return ('v%d', x)\n" % ver
    m = types.ModuleType("modx"); m.__file__ = "/tmp/d20/modx.py"
    open("/tmp/d20/modx.py", "w").write(src)
    import linecache; linecache.checkcache("/tmp/d20/modx.py")
    exec(compile(src, "/tmp/d20/modx.py", "exec"), m.__dict__)
    m.f.__module__ = "modx"
    return m.f
f1 = make(1); c1 = mem.cache(f1)
print("v1 f(1)", c1(1))
f2 = make(2); c2 = mem.cache(f2)
print("v2 .call(2)", c2.call(2)[0])
r = c1(2)
print("v1 f(2)", r)
sys.exit(0 if r == ('v1', 2) else 1)
