"""D5b (C05): func_code.py torn inside its '# first line: N' header (crash during the in-place
write) makes every later call raise ValueError.  Exit 1 if present."""
import sys, os, glob, shutil, tempfile, warnings
from joblib import Memory
bad = 0
for cut in (13, 14, 5, 15, 30):
    d = tempfile.mkdtemp(prefix="d5b", dir=os.environ.get("VERIF_SCRATCH"))
    try:
        mem = Memory(d, verbose=0)
        def f(x): return x * 2
        cf = mem.cache(f); assert cf(3) == 6
        (p,) = glob.glob(os.path.join(d, "**", "func_code.py"), recursive=True)
        data = open(p, "rb").read(); open(p, "wb").write(data[:cut])
        import joblib.memory as jm; jm._FUNCTION_HASHES.clear()     # = fresh process
        try:
            with warnings.catch_warnings():
                warnings.simplefilter("ignore"); r = cf(3)
            assert r == 6
        except Exception as e:
            bad += 1; print("cut", cut, "raised", repr(e))
    finally:
        shutil.rmtree(d, ignore_errors=True)
print("D5b present" if bad else "D5b absent"); sys.exit(1 if bad else 0)
