"""D2 (C14): a zlib/gzip joblib file followed by any extra byte makes joblib.load spin forever.
Exit 1 if the defect is present (watchdog 10 s; a normal load takes milliseconds)."""
import io, sys, signal, joblib
obj = {"a": list(range(50)), "b": "x" * 100}
bad = 0
for comp in ("zlib", "gzip"):
    for extra in (b"\x00", b"junk" * 3):
        buf = io.BytesIO(); joblib.dump(obj, buf, compress=(comp, 3))
        data = buf.getvalue() + extra
        def onalarm(*a): raise TimeoutError
        signal.signal(signal.SIGALRM, onalarm); signal.alarm(10)
        try:
            r = joblib.load(io.BytesIO(data)); signal.alarm(0)
            print(comp, extra, "returned original" if r == obj else "returned a DIFFERENT object")
            bad += r != obj
        except TimeoutError:
            print(comp, extra, "HANG"); bad += 1
        except Exception as e:
            signal.alarm(0); print(comp, extra, "raised", type(e).__name__)
print("D2 present" if bad else "D2 absent")
sys.exit(1 if bad else 0)
