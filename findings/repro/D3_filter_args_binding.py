"""D3 (C07/C02/C06): filter_args does not bind like Python for positional-only parameters,
keyword-only parameters after defaults, and *args followed by keyword-only parameters.
Exit 1 if present."""
import sys, os, shutil, tempfile
from joblib import Memory
from joblib.func_inspect import filter_args
bad = 0
def h(a, /, b): return (a, b)
def k(a, b=2, *, c): return (a, b, c)
def v(a, *args, k=1): return (a, args, k)
def q(a=1, /, **kw): return (a, kw)
for f, args, kw, exp in [(h, (1, 2), {}, {"a": 1, "b": 2}), (k, (5,), {"c": 0}, {"a": 5, "b": 2, "c": 0}),
                         (v, (1, 2, 3), {}, {"a": 1, "*": [2, 3], "k": 1}), (q, (), {"a": 2}, {"a": 1, "**": {"a": 2}})]:
    try:
        got = filter_args(f, [], args, kw)
        if got != exp: bad += 1; print(f.__name__, args, kw, "->", got, "expected", exp)
    except Exception as e:
        bad += 1; print(f.__name__, args, kw, "raised", repr(e))
d = tempfile.mkdtemp(prefix="d3", dir=os.environ.get("VERIF_SCRATCH"))
try:
    mh = Memory(d, verbose=0).cache(h)
    r = [mh(1, 2), mh(1, 5)]
    if r != [(1, 2), (1, 5)]: bad += 1; print("cached h(1,2), h(1,5) ->", r)
except Exception as e:
    bad += 1; print("cached h raised", repr(e))
finally:
    shutil.rmtree(d, ignore_errors=True)
print("D3 present" if bad else "D3 absent"); sys.exit(1 if bad else 0)
