"""D31 (C06): a keyword argument named 'self'.  Run: PYTHONPATH=<joblib tree> python D31.py
Before the fix: TypeError from the wrapper; after: the value of the function."""
import sys, tempfile, joblib
m = joblib.Memory(tempfile.mkdtemp(), verbose=0)


@m.cache
def f(a=1, **kw):
    return (a, kw)


try:
    print(f(**{"self": 1}))
except TypeError as e:
    print("DEFECT:", e); sys.exit(1)
