"""D9 (C09, open): when completions interleave with the caller's initial dispatch loop (_start), each
callback slices n_jobs new batches into the shared _ready_batches queue and the caller drains that queue
regardless of its pre_dispatch-long islice, so items-taken minus tasks-completed grows with the input
length.  Deterministic: a backend that completes a batch at every submit of the initial loop."""
import sys
from joblib import Parallel, delayed
from joblib._parallel_backends import ParallelBackendBase

class Fut:
    def __init__(s): s.r = None
    def get(s): return s.r

class B(ParallelBackendBase):
    supports_retrieve_callback = True
    def __init__(s, **kw): super().__init__(**kw); s.pending = []; s.depth = 0
    def effective_n_jobs(s, n): return 2
    def configure(s, n_jobs=1, parallel=None, **kw): s.parallel = parallel; return 2
    def retrieve_result_callback(s, out): return out.get()
    def submit(s, func, callback=None):
        f = Fut(); s.pending.append((func, callback, f))
        if s.depth == 0 and len(s.pending) >= 2:     # a worker finishes right now (its callback runs in submit's thread,
            s.depth += 1                             # like concurrent.futures' add_done_callback on a finished future)
            fn, cb, ff = s.pending.pop(0); ff.r = fn(); done[0] += len(ff.r); cb(ff)
            s.depth -= 1
        return f

worst = {}
for N in (10, 50, 200):
    taken = [0]; done = [0]; peak = [0]
    def gen():
        for i in range(N):
            taken[0] += 1; peak[0] = max(peak[0], taken[0] - done[0]); yield delayed(abs)(i)
    be = B()
    import joblib.parallel as jp, types, time as _t
    def sleep(_):
        if be.pending:
            fn, cb, ff = be.pending.pop(0); ff.r = fn(); done[0] += len(ff.r); cb(ff)
    jp.time = types.SimpleNamespace(time=_t.time, sleep=sleep)
    out = Parallel(n_jobs=2, backend=be, batch_size=1, pre_dispatch=2)(gen())
    jp.time = _t
    assert out == list(range(N))
    worst[N] = peak[0]
print("max(items taken - tasks completed) with pre_dispatch=2, n_jobs=2, batch_size=1:", worst)
bad = worst[200] > worst[10] + 4
print("D9 present (grows with the input length)" if bad else "D9 absent"); sys.exit(1 if bad else 0)
