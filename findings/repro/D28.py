"""D28 (C19): Parallel(mmap_mode=None) with an argument above max_nbytes.  Run: PYTHONPATH=<joblib tree> python3-vt D28.py
Before 9e21ff4: BrokenProcessPool ("A task has failed to un-serialize"); after: the workers get the array by value."""
import sys
import numpy as np
from joblib import Parallel, delayed

a = np.arange(100000, dtype="int64")
try:
    r = Parallel(n_jobs=2, max_nbytes=1000, mmap_mode=None)(delayed(np.sum)(a) for _ in range(3))
except BaseException as e:
    print("DEFECT:", type(e).__name__, str(e)[:120]); sys.exit(1)
print("ok" if all(x == a.sum() for x in r) else "DEFECT: wrong values"); sys.exit(0 if all(x == a.sum() for x in r) else 1)
