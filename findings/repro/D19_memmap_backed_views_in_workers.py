"""D19 (C19): run with python3-vt.  Views of a memory-mapped array passed to loky workers: a transposed view arrived with wrong
values (the memory order of the backing memmap was used instead of the view's), a reversed view crashed the workers (negative
strides applied from the lowest address).  Exit 1 if present."""
import sys, os, tempfile, shutil, hashlib, warnings
import numpy as np
warnings.simplefilter("ignore")
from joblib import Parallel, delayed
d = tempfile.mkdtemp(prefix="d19", dir=os.environ.get("VERIF_SCRATCH"))
def summ(x): return hashlib.md5(np.ascontiguousarray(x).tobytes()).hexdigest()
bad = 0
try:
    m = np.memmap(os.path.join(d, "m.bin"), dtype="<f8", mode="w+", shape=(31, 23)); m[...] = np.arange(31 * 23).reshape(31, 23); m.flush()
    for name, v in (("m.T", m.T), ("m[::-1]", m[::-1]), ("m[:, ::-2]", m[:, ::-2])):
        try:
            got = Parallel(n_jobs=2, backend="loky", max_nbytes=0)(delayed(summ)(x) for x in [v, v])
            ok = all(g == summ(v) for g in got); print(name, "same values" if ok else "WRONG values"); bad += not ok
        except Exception as e:
            print(name, "raised", type(e).__name__); bad += 1
finally:
    shutil.rmtree(d, ignore_errors=True)
print("D19 present" if bad else "D19 absent"); sys.exit(1 if bad else 0)
