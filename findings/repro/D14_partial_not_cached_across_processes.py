"""D14 (C06, open): a functools.partial cached with Memory is executed again in every new process, because the
stored "source" of a partial is repr(partial) (it embeds the address of the wrapped function) and so never compares equal
across sessions.  Exit 1 if present."""
import sys, os, tempfile, shutil, subprocess
base = tempfile.mkdtemp(prefix="d14", dir=os.environ.get("VERIF_SCRATCH"))
try:
    open(base + "/tm.py", "w").write("def f(a, b):\n    print('RUN')\n    return (a, b)\n")
    code = ("import sys, functools, warnings; warnings.simplefilter('ignore'); sys.path.insert(0, %r); import joblib, tm\n"
            "g = joblib.Memory(%r, verbose=0).cache(functools.partial(tm.f, 1)); print(g(2))" % (base, base + "/cache"))
    outs = [subprocess.run([sys.executable, "-c", code], env=dict(os.environ, PYTHONPATH="/repo"), capture_output=True, text=True).stdout for _ in range(2)]
    print(outs)
    bad = "RUN" in outs[1]
finally:
    shutil.rmtree(base, ignore_errors=True)
print("D14 present" if bad else "D14 absent"); sys.exit(1 if bad else 0)
