"""D12 (C04): a straggler of an interrupted call whose completion callback fires after the next
call has reset its flags/counters but before it has renewed its call id (e.g. while the backend
is being re-configured) is accounted to the new call: it takes items from the OLD input iterator
and dispatches them as part of the new call.  Needs a backend whose abort does not wait for
running tasks.  Exit 1 if present."""
import sys, types, time as _t
from joblib import Parallel, delayed
from joblib._parallel_backends import ParallelBackendBase
import joblib.parallel as jp

class Fut:
    def __init__(s): s.r = s.e = None
    def get(s):
        if s.e: raise s.e
        return s.r

class B(ParallelBackendBase):
    supports_retrieve_callback = True
    def __init__(s, **kw): super().__init__(**kw); s.pending = []; s.deliver_stale_in_configure = False
    def effective_n_jobs(s, n): return 2
    def configure(s, n_jobs=1, parallel=None, **kw):
        s.parallel = parallel
        if s.deliver_stale_in_configure and s.pending:
            s.complete(0)                      # a worker of the previous call finishes right now
        return 2
    def submit(s, func, callback=None):
        f = Fut(); s.pending.append((func, callback, f)); return f
    def retrieve_result_callback(s, out): return out.get()
    def abort_everything(s, ensure_ready=True): pass      # cannot recall running work
    def complete(s, k):
        func, cb, f = s.pending.pop(k)
        try: f.r = func()
        except BaseException as e: f.e = e
        cb(f)

def task(tag, i):
    if tag == "A" and i == 1: raise ValueError("boom")
    return (tag, i)

be = B()
def sleep(_):
    if be.pending: be.complete(len(be.pending) - 1 if first[0] else 0)
first = [True]
jp.time = types.SimpleNamespace(time=_t.time, sleep=sleep)
pulled = []
def inputA():
    for i in range(10):
        pulled.append(("A", i)); yield delayed(task)("A", i)
p = Parallel(n_jobs=2, backend=be, batch_size=1, pre_dispatch=2)
try:
    p(inputA())            # the poll completes the LAST pending batch first: task 1 fails, task 0 still "running"
except ValueError:
    pass
n_pulled_A = len(pulled)
first[0] = False
be.deliver_stale_in_configure = True
try:
    out = p(delayed(task)("B", i) for i in range(3))
except BaseException as e:
    out = "raised " + repr(e)
jp.time = _t
bad = out != [("B", i) for i in range(3)] or len(pulled) != n_pulled_A
print("second call returned", out, "; items taken from the first call's input after it failed:", len(pulled) - n_pulled_A)
print("D12 present" if bad else "D12 absent"); sys.exit(1 if bad else 0)
