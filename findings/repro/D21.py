import sys, os, types, linecache
from joblib import Memory
memA = Memory("/tmp/d20/cache", verbose=0)
os.chdir("/tmp/d20"); memB = Memory("cache", verbose=0)      # the same directory, spelled differently
def make(ver):
    src = "def f(x):\n    return ('v%d', x)\n" % ver
    m = types.ModuleType("modx"); m.__file__ = "/tmp/d20/modx.py"
    open("/tmp/d20/modx.py", "w").write(src); linecache.checkcache("/tmp/d20/modx.py")
    exec(compile(src, "/tmp/d20/modx.py", "exec"), m.__dict__); m.f.__module__ = "modx"
    return m.f
f1 = make(1); c1 = memA.cache(f1)
print("v1 f(1)", c1(1))
f2 = make(2); c2 = memB.cache(f2)
print("v2 f(1)", c2(1))
r = c1(1)
print("v1 f(1)", r)
sys.exit(0 if r == ('v1', 1) else 1)
