"""D11 (C17, open): the n_jobs of an enclosing context is replaced by 1 whenever _get_active_backend forces the thread backend.
Exit 1 if present."""
import sys
from joblib import Parallel, parallel_config
bad = 0
with parallel_config(n_jobs=2):
    for kw in (dict(prefer="threads"), dict(require="sharedmem"), dict(prefer="threads", backend="threading")):
        n = Parallel(**kw).n_jobs
        print(kw, "-> n_jobs", n); bad += n != 2
print("D11 present" if bad else "D11 absent"); sys.exit(1 if bad else 0)
