"""D10 (C11): a concurrent clear() of the function directory between the existence test and the
open() in store_cached_func_code makes the cached call raise FileNotFoundError.  The window is
opened deterministically by emulating the other process' rmtree at that point.  Exit 1 if present."""
import sys, os, shutil, tempfile, warnings
from joblib import Memory
import joblib._store_backends as sb
d = tempfile.mkdtemp(prefix="d10", dir=os.environ.get("VERIF_SCRATCH"))
warnings.simplefilter("ignore")
try:
    mem = Memory(d, verbose=0)
    def f(x): return x + 1
    cf = mem.cache(f)
    be = mem.store_backend
    orig_open = be._open_item
    fired = []
    def racing_open(fn, mode):
        if fn.endswith("func_code.py") and "w" in mode and not fired:
            fired.append(1); shutil.rmtree(os.path.dirname(fn), ignore_errors=True)   # the other process' clear()
        return orig_open(fn, mode)
    be._open_item = racing_open
    try:
        r = cf(1); ok = r == 2; print("returned", r)
    except Exception as e:
        ok = False; print("raised", repr(e))
    be._open_item = orig_open
    ok = ok and cf(1) == 2 and cf(5) == 6
finally:
    shutil.rmtree(d, ignore_errors=True)
print("D10 absent" if ok else "D10 present"); sys.exit(0 if ok else 1)
