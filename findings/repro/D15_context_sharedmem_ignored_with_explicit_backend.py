"""D15 (C17): require='sharedmem' set by an enclosing parallel_config is silently ignored when Parallel is given an explicit
process-based backend: the hard constraint is only enforced for the explicit `require` argument.  Exit 1 if present."""
import sys
from joblib import Parallel, parallel_config
bad = 0
with parallel_config(require="sharedmem"):
    try:
        p = Parallel(n_jobs=2, backend="loky")
        print("Parallel(backend='loky') under parallel_config(require='sharedmem') uses", type(p._backend).__name__); bad += 1
    except ValueError as e:
        print("raised ValueError:", e)
    p = Parallel(n_jobs=2, backend="threading"); assert type(p._backend).__name__ == "ThreadingBackend"
    p = Parallel(n_jobs=2); assert p._backend.supports_sharedmem
print("D15 present" if bad else "D15 absent"); sys.exit(1 if bad else 0)
