"""D27 (C20): with warnings turned into errors (python -W error / PYTHONWARNINGS=error, inherited by the tracker process), one
resource whose clean-up fails at the tracker's shutdown aborts the clean-up of everything else: registered folders stay.
exit 1 = present."""
import os, sys, subprocess, tempfile, time, shutil
d = tempfile.mkdtemp()
child = r'''
import os, sys
from joblib.externals.loky.backend import resource_tracker as rt
d = sys.argv[1]
os.makedirs(os.path.join(d, "keepme"))
rt.register(os.path.join(d, "missing_file_that_cannot_be_unlinked", "x"), "semlock")   # its clean-up fails
rt.register(os.path.join(d, "keepme"), "folder")
os._exit(0)      # the client dies without unregistering: the tracker must delete the folder
'''
env = dict(os.environ, PYTHONWARNINGS="error", PYTHONPATH=os.environ.get("PYTHONPATH", "/repo"))
subprocess.run([sys.executable, "-c", child, d], env=env, stderr=subprocess.DEVNULL)
t0 = time.time()
while os.path.exists(os.path.join(d, "keepme")) and time.time() - t0 < 10: time.sleep(0.05)
left = os.path.exists(os.path.join(d, "keepme"))
shutil.rmtree(d, ignore_errors=True)
print("folder left behind" if left else "folder deleted by the tracker"); sys.exit(1 if left else 0)
