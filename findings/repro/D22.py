"""D22 (C11): a call concurrent with Memory.clear() raises FileNotFoundError from mkdirp: a parent directory removed between
os.makedirs' own creation of the parents and of the leaf.  Deterministic: the removal is injected at that point.  exit 1 = present."""
import os, sys, shutil, tempfile
from joblib import Memory
import joblib.disk
d = tempfile.mkdtemp()
mem = Memory(d, verbose=0)
def f(x): return x + 1
g = mem.cache(f)
real_mkdir = os.mkdir
state = {"armed": True}
def mkdir(path, *a, **k):
    # when the function directory is about to be created: another user clears the whole cache first (once)
    if state["armed"] and os.path.basename(str(path)) == "f":
        state["armed"] = False
        shutil.rmtree(os.path.join(d, "joblib"), ignore_errors=True)
    return real_mkdir(path, *a, **k)
os.mkdir = mkdir
try:
    r = g(1)
    print("call returned", r); code = 0 if r == 2 else 1
except FileNotFoundError as e:
    print("call raised", repr(e)); code = 1
finally:
    os.mkdir = real_mkdir; shutil.rmtree(d, ignore_errors=True)
sys.exit(code)
