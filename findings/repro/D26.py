"""D26 (C06): with the default verbosity of Memory a cached function that has a parameter named `func` cannot be called with
that argument passed by keyword: format_signature(func, *args, **kwargs) gets two values for `func`.  exit 1 = present."""
import sys, io, contextlib, tempfile, shutil
from joblib import Memory
def apply(func, x): return (func, x)
d = tempfile.mkdtemp()
try:
    with contextlib.redirect_stdout(io.StringIO()):
        c = Memory(d).cache(apply)          # verbose=1 is the default
        try: r = c(func="abs", x=1)
        except TypeError as e: r = "TypeError: %s" % e
finally:
    shutil.rmtree(d, ignore_errors=True)
print(r); sys.exit(0 if r == ("abs", 1) else 1)
