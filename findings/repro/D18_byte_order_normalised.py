"""D18 (C19, open): run with python3-vt.  A big-endian array is loaded back as a native-endian array (same values)."""
import sys, io, numpy as np, joblib
a = np.arange(5, dtype=">i4"); b = io.BytesIO(); joblib.dump(a, b); r = joblib.load(io.BytesIO(b.getvalue()))
print(a.dtype, "->", r.dtype, "values equal:", bool((a == r).all()))
bad = a.dtype != r.dtype
print("D18 present" if bad else "D18 absent"); sys.exit(1 if bad else 0)
