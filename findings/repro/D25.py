"""D25 (C04): an input whose __len__ raises leaves the Parallel object "already running".  exit 1 = present."""
import sys
from joblib import Parallel, delayed
class L:
    def __len__(self): raise KeyError("len fails")
    def __iter__(self): return iter([delayed(abs)(-1)])
p = Parallel(n_jobs=2, backend="threading")
try: p(L())
except KeyError: pass
try:
    r = p(delayed(abs)(-i) for i in range(3)); print("second call:", r); sys.exit(0 if r == [0, 1, 2] else 1)
except RuntimeError as e:
    print("second call raised:", e); sys.exit(1)
