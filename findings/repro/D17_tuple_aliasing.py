"""D17 (C08, open): equal values whose equal tuples are one shared object vs. distinct objects hash differently.  Exit 1 if present."""
import sys, joblib
t = (1, 2)
bad = joblib.hash([t, t]) != joblib.hash([(1, 2), (1, int("2"))])
print("D17 present" if bad else "D17 absent"); sys.exit(1 if bad else 0)
