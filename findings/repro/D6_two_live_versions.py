"""D6 (C12): two live definitions of a same-named function: m1(1); m2(1); m1(1) returns the
value computed by version 2 (in-memory fast path skips the comparison with the stored source).
Exit 1 if present."""
import sys, os, shutil, tempfile, warnings
from joblib import Memory
d = tempfile.mkdtemp(prefix="d6", dir=os.environ.get("VERIF_SCRATCH"))
warnings.simplefilter("ignore")
try:
    mem = Memory(d, verbose=0)
    def f(x): return ("v1", x)
    m1 = mem.cache(f)
    def f(x): return ("v2", x)
    m2 = mem.cache(f)
    seq = [m1(1), m2(1), m1(1), m2(1), m1(1)]
    print(seq)
    ok = seq == [("v1", 1), ("v2", 1), ("v1", 1), ("v2", 1), ("v1", 1)]
finally:
    shutil.rmtree(d, ignore_errors=True)
print("D6 absent" if ok else "D6 present"); sys.exit(0 if ok else 1)
