"""D5a (C05): crash between the rename of output.pkl and the rename of metadata.json leaves an
entry without metadata; with cache_validation_callback=expires_after(...) the next call raises
KeyError('time') instead of recomputing.  Exit 1 if present."""
import sys, os, glob, shutil, tempfile, joblib
from joblib import Memory, expires_after
d = tempfile.mkdtemp(prefix="d5a", dir=os.environ.get("VERIF_SCRATCH"))
try:
    mem = Memory(d, verbose=0)
    def f(x): return x * 2
    cf = mem.cache(f, cache_validation_callback=expires_after(days=1))
    assert cf(3) == 6
    for m in glob.glob(os.path.join(d, "**", "metadata.json"), recursive=True): os.unlink(m)
    try:
        r = cf(3); ok = r == 6; print("returned", r)
    except Exception as e:
        ok = False; print("raised", repr(e))
finally:
    shutil.rmtree(d, ignore_errors=True)
print("D5a absent" if ok else "D5a present"); sys.exit(0 if ok else 1)
