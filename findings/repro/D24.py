"""D24 (C04): Parallel(n_jobs=1, verbose>=1): a failing task surfaces as AttributeError('_pre_dispatch_amount') raised by the
progress report of the clean-up code instead of the task's own exception.  exit 1 = present."""
import sys, io, contextlib
from joblib import Parallel, delayed
def f(i):
    if i == 2: raise ValueError("task 2")
    return i
with contextlib.redirect_stdout(io.StringIO()), contextlib.redirect_stderr(io.StringIO()):
    try:
        Parallel(n_jobs=1, verbose=1)(delayed(f)(i) for i in range(4)); out = "returned"
    except ValueError as e: out = "ValueError %s" % e
    except Exception as e: out = "%s %s" % (type(e).__name__, e)
print(out); sys.exit(0 if out == "ValueError task 2" else 1)
