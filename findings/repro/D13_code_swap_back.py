"""D13 (C12): swapping a cached function's __code__ A -> B -> A: the third call returns the value cached by B
(MemorizedFunc.func_code_info keeps B's source because _func_code_id still holds id(A's code)).  Exit 1 if present."""
import os, sys, shutil, tempfile, warnings, importlib
warnings.simplefilter("ignore")
base = tempfile.mkdtemp(prefix="d13", dir=os.environ.get("VERIF_SCRATCH"))
try:
    open(os.path.join(base, "swapmod.py"), "w").write("def f(x):\n    return ['A', x]\n\n\ndef g(x):\n    return ['B', x]\n")
    sys.path.insert(0, base)
    swapmod = importlib.import_module("swapmod")
    from joblib import Memory
    codeA, codeB = swapmod.f.__code__, swapmod.g.__code__
    m = Memory(os.path.join(base, "cache"), verbose=0).cache(swapmod.f)
    out = [m(1)]
    swapmod.f.__code__ = codeB; out.append(m(1))
    swapmod.f.__code__ = codeA; out.append(m(1))
    swapmod.f.__code__ = codeB; out.append(m(1))
    print(out)
    ok = out == [["A", 1], ["B", 1], ["A", 1], ["B", 1]]
finally:
    shutil.rmtree(base, ignore_errors=True)
print("D13 absent" if ok else "D13 present"); sys.exit(0 if ok else 1)
