"""D32 (C03): load from an in-memory buffer positioned after a header.  Run: PYTHONPATH=<joblib tree> python D32.py"""
import io, sys, joblib
buf = io.BytesIO(); buf.write(b"HEADER"); pos = buf.tell()
joblib.dump([1, 2, 3], buf); buf.seek(pos)
try:
    r = joblib.load(buf)
except Exception as e:
    print("DEFECT:", repr(e)); sys.exit(1)
print(r); sys.exit(0 if r == [1, 2, 3] else 1)
