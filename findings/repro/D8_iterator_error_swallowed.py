"""D8 (C04): pre_dispatch='all', every dispatched batch completes (callback included) before the
input iterable raises -> Parallel returns [] and the iterable's exception is lost.
Backend: futures completed at submit time with the callback attached afterwards, exactly what
concurrent.futures.Future.add_done_callback does for a finished future (documented example backend).
Exit 1 if the defect is present."""
import sys
from concurrent.futures import Future
from joblib import Parallel, delayed
from joblib._parallel_backends import ParallelBackendBase

class Inline(ParallelBackendBase):
    supports_retrieve_callback = True
    def effective_n_jobs(self, n_jobs): return 2
    def configure(self, n_jobs=1, parallel=None, **kw): self.parallel = parallel; return 2
    def submit(self, func, callback=None):
        f = Future()
        try: f.set_result(func())
        except BaseException as e: f.set_exception(e)
        f.add_done_callback(callback)      # runs inline: the future is already done
        return f
    def retrieve_result_callback(self, out): return out.result()

def gen():
    yield delayed(abs)(-1)
    yield delayed(abs)(-2)
    raise KeyError("input iterable failed")

bad = 0
for mode in ("list", "generator"):
    try:
        r = Parallel(n_jobs=2, backend=Inline(), pre_dispatch="all", batch_size=1, return_as=mode)(gen())
        r = list(r)
        print(mode, "returned", r, "- exception swallowed"); bad += 1
    except KeyError as e:
        print(mode, "raised", repr(e))
print("D8 present" if bad else "D8 absent")
sys.exit(1 if bad else 0)
