import os, sys, json, subprocess, shutil, random
from concurrent.futures import ThreadPoolExecutor
sys.path.insert(0, os.path.dirname(os.path.dirname(os.path.abspath(__file__))))
from checks import common
from engine import tlc

WORKER = os.path.join(common.VERIF, "harness", "persist_worker.py")


def run_job(args):
    base, k, cases = args
    d = os.path.join(base, "w%d" % k); os.makedirs(d)
    jf = os.path.join(d, "job.json"); json.dump({"dir": os.path.join(d, "files"), "cases": cases}, open(jf, "w"))
    p = subprocess.run(["/venv/bin/python", "-W", "ignore", WORKER, jf], env=dict(os.environ, PYTHONPATH=os.environ.get("VERIF_REPO", "/repo") + ":" + common.VERIF, PYTHONDONTWRITEBYTECODE="1"), capture_output=True, text=True, timeout=3000)
    if not os.path.exists(jf + ".out"): raise RuntimeError("persist worker failed: " + p.stderr[-500:])
    r = json.load(open(jf + ".out")); shutil.rmtree(d, ignore_errors=True)
    return r


def run_sniff(args):
    base, k, hist = args
    d = os.path.join(base, "sn%d" % k); os.makedirs(d)
    jf = os.path.join(d, "job.json"); json.dump({"dir": os.path.join(d, "files"), "hist": hist}, open(jf, "w"))
    p = subprocess.run(["/venv/bin/python", "-W", "ignore", WORKER, "--sniff", jf], env=dict(os.environ, PYTHONPATH=os.environ.get("VERIF_REPO", "/repo") + ":" + common.VERIF, PYTHONDONTWRITEBYTECODE="1"),
                       capture_output=True, text=True, timeout=600)
    if not os.path.exists(jf + ".out"): raise RuntimeError("sniff worker failed: " + p.stderr[-500:])
    r = json.load(open(jf + ".out")); shutil.rmtree(d, ignore_errors=True)
    return r


def sniffing(c, rng):
    """Sniffing.tla: the registry of compressors over the history of one process"""
    def cfg(name, memo, gen, maxlen=4):
        p = os.path.join(common.VERIF, "out", "cfg", "SN_%s.cfg" % name)
        if gen: tlc.write_cfg(p, constants=dict(Custom={"c3", "c9"}, Memoised=memo, MaxLen=maxlen, Gen=True), init="Init", next="Next", constraint="Emit")
        else: tlc.write_cfg(p, constants=dict(Custom={"c3", "c9"}, Memoised=memo, MaxLen=maxlen, Gen=False), spec="Spec", invariants=["DetectsWriter", "PrefixFree"], view="View")
        return p
    c.model_check("Sniffing[registry histories]", "Sniffing", cfg("mc", False, False), workers=4, timeout=300)
    r = c.model_check("Sniffing[sniff length computed once]", "Sniffing", cfg("memo", True, False), must_hold=False, workers=4, timeout=300)
    if r.ok: raise tlc.TLCError("Sniffing lost its sensitivity: a sniff length frozen at the first load must miss a longer magic registered later")
    c.extra["sniffing_sensitivity"] = "sniff length computed once -> %s" % (r.violated,)
    r = tlc.run("Sniffing", cfg("gen", False, True, maxlen=3 if c.quick else 4), workers=1, timeout=600); c.add_tlc("Sniffing-gen", r)
    hists = [h for h in tlc.printed_json(r) if any(op == "register" for op, _ in h) and any(op == "load" for op, _ in h)]
    uniq = sorted({json.dumps(h) for h in hists}); hists = [json.loads(h) for h in uniq]
    c.extra["sniffing_histories"] = len(hists)
    n = 60 if c.quick else 1500
    if len(hists) > n: hists = rng.sample(hists, n)
    base = common.scratch("c03_sniff")
    with ThreadPoolExecutor(max_workers=14) as ex:
        res = list(ex.map(run_sniff, [(base, k, h) for k, h in enumerate(hists)]))
    shutil.rmtree(base, ignore_errors=True)
    for h, pbs in zip(hists, res):
        c.evaluations += 1; c.nontrivial.add("sniff:" + json.dumps(h))
        for pb in pbs:
            c.violation({"k": "registry_history", "history": h, "step": pb["step"], "via": pb["via"]},
                        "C03: in a process with the history %s the file of step %d loaded via %s: %s" % (h, pb["step"], pb["via"], pb["what"]), {})


def body(c):
    c.spec_cases_replayed = True
    rng = random.Random(c.seed)
    sniffing(c, rng)
    path = os.path.join(common.VERIF, "out", "cfg", "PS.cfg")
    tlc.write_cfg(path, init="Init", next="Next", invariants=["DetectConsistent", "TupleWins", "MagicsDistinct"], constraint="Emit")
    r = tlc.run("Persist", path, workers=1, timeout=600); c.add_tlc("Persist[lattice]", r)
    if not r.ok: raise tlc.TLCError("Persist violates %s" % (r.violated,))
    cfgs = tlc.printed_json(r)
    path = os.path.join(common.VERIF, "out", "cfg", "OG.cfg")
    tlc.write_cfg(path, constants=dict(N=3, MaxKids=2, Leaves={1, 2}), init="Init", next="Next", constraint="Emit")
    r = tlc.run("ObjGraph", path, workers=1, timeout=900, heap="6g"); c.add_tlc("ObjGraph[N=3]", r)
    graphs = tlc.printed_json(r)
    c.extra["configurations"] = len(cfgs); c.extra["graphs"] = len(graphs)
    c.extra["graphs_with_sharing"] = sum(1 for g in graphs if g["sharing"]); c.extra["graphs_with_cycle"] = sum(1 for g in graphs if g["cycle"])
    cases = []
    protos = [None, 0, 1, 2, 3, 4, 5]
    for k, cf in enumerate(cfgs):
        cases.append({"k": "cfg", "cfg": cf, "protocol": protos[k % len(protos)]})
    if c.quick:
        graphs = rng.sample(graphs, 1500)
    comps = [0, 3, ["zlib", 1], ["gzip", 9], ["bz2", 5], ["lzma", 3], ["xz", 6], True]
    kindsets = [["list", "dict", "obj"], ["dict", "obj", "list"], ["obj", "list", "dict"], ["list", "list", "list"]]
    for k, g in enumerate(graphs):
        cases.append({"k": "graph", "graph": g, "kinds": kindsets[k % 4], "compress": comps[k % len(comps)], "protocol": protos[(k // 3) % len(protos)],
                      "target": "bytesio" if k % 2 else "path"})
    sizes = [8191, 8192, 8193, 2 ** 16 - 1, 2 ** 16, 2 ** 16 + 1, 2 ** 20 - 1, 2 ** 20, 2 ** 20 + 1] + ([] if c.quick else [2 ** 18, 3 * 2 ** 20 + 7, 2 ** 22])
    scomps = [0, ["zlib", 1], ["zlib", 6], ["gzip", 9], ["bz2", 1], ["xz", 1], ["lzma", 1]]
    k = 0
    for n in sizes:
        for expr in ("b'\\0' * %d" % n, "os.urandom(%d)" % n, "'a' * %d" % n, "[0] * %d" % (n // 64), "{'k': bytearray(%d), 'l': list(range(%d))}" % (n, n // 256)):
            for cm in (scomps if (n <= 2 ** 20 + 1 or not c.quick) else scomps[:3]):
                if c.quick and (k % 3) and n > 70000: k += 1; continue
                cases.append({"k": "size", "expr": expr, "compress": cm, "protocol": protos[k % len(protos)]}); k += 1
    # highly redundant payloads that inflate one 8 KiB raw block to several MiB (zlib/gzip, high levels)
    for expr in ("b'\\0' * (5 * 2 ** 19)", "'ab' * (3 * 2 ** 19)"):
        for cm in (["zlib", 6], ["gzip", 9], ["zlib", 9]):
            cases.append({"k": "size", "expr": expr, "compress": cm, "protocol": 4})
    # dumps that do not start at offset 0 of their file object (after a header of the caller, followed by a second dump when nothing
    # reads ahead), from the smallest pickles there are to payloads beyond the io buffer
    for k2, expr in enumerate(("None", "True", "0", "''", "()", "'abc'", "[1, 'two', (3.0, None)]", "b'\\0' * 8193", "'a' * 70000")):
        for cm in (0, ["zlib", 3], ["gzip", 3], ["bz2", 3], ["xz", 3]):
            for pr in ((0, 2, 4, 5) if cm == 0 else (protos[(k2 + len(str(cm))) % len(protos)],)):
                cases.append({"k": "size", "expr": expr, "compress": cm, "protocol": pr, "embedded": 1 + k2 % 2})
    # (at the end of every worker's list: the process has loaded many files by then)
    ncust = 0
    for expr in ("[1, 'two', (3.0, None)]", "'a' * 70000", "None"):
        for nm in ("vz", "verifzlong"):
            for rep in range(5):
                cases.append({"k": "custom", "expr": expr, "name": nm, "protocol": protos[ncust % len(protos)]}); ncust += 1
    base = common.scratch("c03")
    nw = 14
    jobs = [(base, k, cases[k::nw]) for k in range(nw)]
    with ThreadPoolExecutor(max_workers=nw) as ex:
        results = list(ex.map(run_job, jobs))
    shutil.rmtree(base, ignore_errors=True)
    for (b, k, cs), res in zip(jobs, results):
        for case, r in zip(cs, res):
            c.evaluations += 1
            if case["k"] == "cfg": key = {"k": "cfg", "arg": case["cfg"]["arg"], "target": case["cfg"]["target"], "ext": case["cfg"]["ext"], "protocol": case["protocol"]}
            elif case["k"] == "graph": key = {"k": "graph", "graph": case["graph"]["kids"], "kinds": case["kinds"], "compress": case["compress"], "protocol": case["protocol"], "target": case["target"]}
            elif case["k"] == "custom": key = {"k": "custom", "expr": case["expr"], "name": case["name"], "protocol": case["protocol"]}
            else: key = {"k": "size", "expr": case["expr"], "compress": case["compress"], "protocol": case["protocol"], "embedded": case.get("embedded")}
            c.nontrivial.add(json.dumps(key, sort_keys=True))
            for pb in r["problems"]:
                c.violation(dict(key, problem=pb[:60]), "C03: %s: %s" % ({kk: vv for kk, vv in key.items() if kk != "k"}, pb), {})
    for cs in cases[:: max(1, len(cases) // 3)][:3]: c.sample(cs)
    c.rule = ("(a) every state of Persist.tla: compress argument (bool, int 0..10, name, (name, level)) x target (path, file object) x extension: the outcome "
              "(ValueError / method) must be what the decision table says, the file content must carry that method's magic, and the file must load to an "
              "isomorphic object graph in place, under every other extension, through buffered and unbuffered file objects and BytesIO; (b) object graphs "
              "enumerated by ObjGraph.tla (<= 3 containers, sharing, self and mutual recursion) round-tripped under rotating compressor/protocol/target and "
              "compared including identity structure; (c) payload size classes around 8 KiB / 64 KiB / 1 MiB and highly redundant multi-MiB payloads x "
              "compressors/levels; distinct = case")
    c.assumptions += ["fidelity is decided by comparing the loaded object with the dumped one (not by the specification)", "lz4 is not installed: not covered"]


common.main("C03", "exploration", body)
