"""TLC runs of specs/ParallelDesign.tla used by the Parallel checks."""
import os, sys
VERIF = os.path.dirname(os.path.dirname(os.path.abspath(__file__)))
if VERIF not in sys.path: sys.path.insert(0, VERIF)
from engine import tlc

BASE = dict(N=4, NJ=2, PRE=2, BSizes={1}, Fail=set(), IterFailAt=99, FailCalls={1, 2, 3}, Mode="list", Calls=1,
            FixReady=True, FixD7=True, FixD8=True, FixCallId=True, SerialCb=True, AbortJoins=True, K=99, KB=99)
INVS = ["NoCarryOver", "InOrder", "NoDup", "ExactlyOnce", "Complete", "FailureSurfaces", "DispatchedBelongToCall"]


def cfg(name, invariants=INVS, liveness=False, **over):
    c = dict(BASE); c.update(over)
    if c["IterFailAt"] == 99: c["IterFailAt"] = c["N"] + 1
    path = os.path.join(VERIF, "out", "cfg", "PD_%s.cfg" % name)
    if liveness:
        tlc.write_cfg(path, constants=c, spec="FairSpec", invariants=invariants, properties=["Termination"])
    else:
        tlc.write_cfg(path, constants=c, init="Init", next="Next", invariants=invariants)
    return path


def run(c, name, must_hold=True, liveness=False, timeout=900, **over):
    p = cfg(name, liveness=liveness, **over)
    r = c.model_check("ParallelDesign[%s]" % name, "ParallelDesign", p, must_hold=must_hold, timeout=timeout, workers=16)
    return r
