import os, sys, collections
sys.path.insert(0, os.path.dirname(os.path.dirname(os.path.abspath(__file__))))
from checks import common, argbind
from engine import tlc


def body(c):
    c.spec_cases_replayed = True
    from joblib.func_inspect import filter_args
    maxn = 4 if c.quick else 5
    states = argbind.enumerate_states(c, maxn)
    stats = collections.Counter()
    # the keyword no parameter has (index 0 in ArgBinding.tla) is spelled in several ways: through ** expansion any string is a
    # legal keyword, also the names filter_args uses itself for the variadic parameters
    spelled = []
    for st in states:
        for fk in (("zz", "*", "**", "self") if 0 in st["kw"] and st["res"][0] == "ok" else ("zz",)):
            spelled.append((st, fk))
    for st, fk in spelled:
        sig = st["sig"]
        f, names, src, _ = argbind.build(sig)
        args, kwargs = argbind.call_of(st, names, foreign=fk)
        cp = argbind.cpython_binding(f, sig, names, args, kwargs)
        stats["states"] += 1
        # the oracle is doubly anchored: the TLA+ transcription must agree with what CPython really does
        if (cp is None) != (st["res"][0] == "error"):
            raise tlc.TLCError("ArgBinding.tla disagrees with CPython on acceptance: %s args=%s kwargs=%s spec=%s" % (src, args, kwargs, st["res"][0]))
        if cp is None:
            stats["rejected_by_python"] += 1; continue
        exp = argbind.expected(st, names, foreign=fk)
        if cp != exp:
            raise tlc.TLCError("ArgBinding.tla disagrees with CPython on the binding: %s args=%s kwargs=%s spec=%s cpython=%s" % (src, args, kwargs, exp, cp))
        stats["accepted"] += 1
        variants = [("function", f, args, exp)]
        fm, _, srcm, inst = argbind.build(sig, method=True)
        if fk != "self":          # (a bound method's own first parameter is called self: Python rejects that keyword there)
            variants.append(("bound_method", fm, args, dict(exp, self=inst)))
        for vname, fn, a, e in variants:
            ignores = [[]] + [[k] for k in e]
            if len(e) >= 2: ignores.append(sorted(e)[:2])
            for ign in ignores:
                c.evaluations += 1
                want = {k: v for k, v in e.items() if k not in ign}
                key = {"signature": src if vname == "function" else srcm.strip(), "npos": st["npos"], "kw": sorted(kwargs), "ignore": ign, "variant": vname}
                try:
                    kw2 = dict(kwargs)
                    got = filter_args(fn, list(ign), a, kw2)
                except Exception as ex:
                    stats["rejects"] += 1
                    c.violation(key, "C07: filter_args raises %s for a call Python accepts: %s  args=%d positional, keywords=%s, ignore=%s" % (type(ex).__name__, key["signature"], st["npos"], sorted(kwargs), ign),
                                {"exception": repr(ex)[:300]})
                    continue
                if kw2 != kwargs:
                    c.violation(dict(key, kind="kwargs_mutated"), "C07: filter_args mutates the caller's kwargs", {})
                if got != want:
                    stats["wrong"] += 1
                    c.violation(key, "C07: filter_args binds differently from Python: %s  args=%d positional, keywords=%s, ignore=%s: got %s, Python binds %s" %
                                (key["signature"], st["npos"], sorted(kwargs), ign, got, want), {})
                else:
                    stats["ok"] += 1
        # the same function OBJECT with its defaults redefined in place (what a reloading tool does): the binding follows
        if fk == "zz" and (f.__defaults__ or f.__kwdefaults__):
            if f.__defaults__: f.__defaults__ = tuple(("redefined", j) for j in range(len(f.__defaults__)))
            if f.__kwdefaults__: f.__kwdefaults__ = {k: ("redefined", k) for k in f.__kwdefaults__}
            cp2 = argbind.cpython_binding(f, sig, names, args, kwargs)
            c.evaluations += 1
            key = {"signature": src, "npos": st["npos"], "kw": sorted(kwargs), "variant": "defaults_redefined_in_place"}
            try:
                got2 = filter_args(f, [], args, dict(kwargs))
                if cp2 is None or got2 != cp2:
                    c.violation(key, "C07: after __defaults__ / __kwdefaults__ of the function object were replaced, filter_args binds %s, Python binds %s: %s args=%d positional, keywords=%s" %
                                (got2, cp2, src, st["npos"], sorted(kwargs)), {})
            except Exception as ex:
                if cp2 is not None:
                    c.violation(key, "C07: after the defaults of the function object were replaced filter_args raises %s for a call Python accepts: %s" % (type(ex).__name__, src), {"exception": repr(ex)[:300]})
        c.nontrivial.add((src, st["npos"], tuple(sorted(kwargs))))
        if stats["accepted"] % 997 == 1:
            c.sample({"signature": src, "positional": st["npos"], "keywords": sorted(kwargs), "python_binds": {k: str(v) for k, v in exp.items()}})
    c.extra["stats"] = dict(stats)
    c.exhaustive = True
    c.rule = ("TLC enumerates every (signature, call shape) of ArgBinding.tla with <= %d parameters over the 5 kinds x default/no default "
              "(0..n+1 positionals, every subset of parameter-named keywords plus one foreign keyword, spelled 'zz', '*', '**' and 'self'); each state whose call Python accepts "
              "becomes implementation tests of filter_args (plain function and bound method, ignore lists: none, each single name, one pair); "
              "distinct = (signature, call shape) accepted by Python" % maxn)
    c.assumptions += ["oracle = ArgBinding.tla, cross-checked on every state against the real binding performed by CPython (a function that returns its own parameters)"]


common.main("C07", "exploration", body)
