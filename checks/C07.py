import os, sys, collections
sys.path.insert(0, os.path.dirname(os.path.dirname(os.path.abspath(__file__))))
from checks import common, argbind
from engine import tlc


def body(c):
    c.spec_cases_replayed = True
    from joblib.func_inspect import filter_args
    maxn = 4 if c.quick else 5
    states = argbind.enumerate_states(c, maxn)
    stats = collections.Counter()
    for st in states:
        sig = st["sig"]
        f, names, src, _ = argbind.build(sig)
        args, kwargs = argbind.call_of(st, names)
        cp = argbind.cpython_binding(f, sig, names, args, kwargs)
        stats["states"] += 1
        # the oracle is doubly anchored: the TLA+ transcription must agree with what CPython really does
        if (cp is None) != (st["res"][0] == "error"):
            raise tlc.TLCError("ArgBinding.tla disagrees with CPython on acceptance: %s args=%s kwargs=%s spec=%s" % (src, args, kwargs, st["res"][0]))
        if cp is None:
            stats["rejected_by_python"] += 1; continue
        exp = argbind.expected(st, names)
        if cp != exp:
            raise tlc.TLCError("ArgBinding.tla disagrees with CPython on the binding: %s args=%s kwargs=%s spec=%s cpython=%s" % (src, args, kwargs, exp, cp))
        stats["accepted"] += 1
        variants = [("function", f, args, exp)]
        fm, _, srcm, inst = argbind.build(sig, method=True)
        variants.append(("bound_method", fm, args, dict(exp, self=inst)))
        for vname, fn, a, e in variants:
            ignores = [[]] + [[k] for k in e]
            if len(e) >= 2: ignores.append(sorted(e)[:2])
            for ign in ignores:
                c.evaluations += 1
                want = {k: v for k, v in e.items() if k not in ign}
                key = {"signature": src if vname == "function" else srcm.strip(), "npos": st["npos"], "kw": sorted(kwargs), "ignore": ign, "variant": vname}
                try:
                    kw2 = dict(kwargs)
                    got = filter_args(fn, list(ign), a, kw2)
                except Exception as ex:
                    stats["rejects"] += 1
                    c.violation(key, "C07: filter_args raises %s for a call Python accepts: %s  args=%d positional, keywords=%s, ignore=%s" % (type(ex).__name__, key["signature"], st["npos"], sorted(kwargs), ign),
                                {"exception": repr(ex)[:300]})
                    continue
                if kw2 != kwargs:
                    c.violation(dict(key, kind="kwargs_mutated"), "C07: filter_args mutates the caller's kwargs", {})
                if got != want:
                    stats["wrong"] += 1
                    c.violation(key, "C07: filter_args binds differently from Python: %s  args=%d positional, keywords=%s, ignore=%s: got %s, Python binds %s" %
                                (key["signature"], st["npos"], sorted(kwargs), ign, got, want), {})
                else:
                    stats["ok"] += 1
        c.nontrivial.add((src, st["npos"], tuple(sorted(kwargs))))
        if stats["accepted"] % 997 == 1:
            c.sample({"signature": src, "positional": st["npos"], "keywords": sorted(kwargs), "python_binds": {k: str(v) for k, v in exp.items()}})
    c.extra["stats"] = dict(stats)
    c.exhaustive = True
    c.rule = ("TLC enumerates every (signature, call shape) of ArgBinding.tla with <= %d parameters over the 5 kinds x default/no default "
              "(0..n+1 positionals, every subset of parameter-named keywords plus one foreign keyword); each state whose call Python accepts "
              "becomes implementation tests of filter_args (plain function and bound method, ignore lists: none, each single name, one pair); "
              "distinct = (signature, call shape) accepted by Python" % maxn)
    c.assumptions += ["oracle = ArgBinding.tla, cross-checked on every state against the real binding performed by CPython (a function that returns its own parameters)"]


common.main("C07", "exploration", body)
