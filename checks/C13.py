import os, sys, json, subprocess, shutil, random, zlib, gzip, io
from concurrent.futures import ThreadPoolExecutor
sys.path.insert(0, os.path.dirname(os.path.dirname(os.path.abspath(__file__))))
from checks import common
from engine import tlc

WORKER = os.path.join(common.VERIF, "harness", "zstream_worker.py")


def gen(c, S, L, quick, simulate=None):
    near = sorted({0, 1, S - 1, S, S + 1, 8191, 8192, 8193} if not simulate else {0, 1, 2, S - 1, S, S + 1, 8191, 8192, 8193, 16385, 2 * S})
    Ns = sorted(x for x in near if x >= 0)
    neg = sorted({1, S, 8192} - {0})
    NL = sorted({x for x in (0, 5, 8191, 8192, S - 1) if 0 <= x < S})
    path = os.path.join(common.VERIF, "out", "cfg", "ZS_%d_%d.cfg" % (S, L))
    tlc.write_cfg(path, constants=dict(S=S, Ns=set(Ns), PosOffs=set(Ns), NegOffs=set(neg), NL=set(NL), L=L), spec="Spec", invariants=["PosInRange", "Wellformed"], constraint="Emit")
    if simulate:
        r = tlc.run("ZlibStream", path, workers=1, timeout=1700, heap="6g", simulate="num=%d" % simulate, depth=L + 1, seed=c.seed + S)
    else:
        r = tlc.run("ZlibStream", path, workers=1, timeout=1700, heap="6g")
    c.add_tlc("ZlibStream[S=%d,L=%d%s]" % (S, L, ",simulate" if simulate else ""), r)
    if not r.ok: raise tlc.TLCError("ZlibStream violates %s" % (r.violated,))
    return tlc.printed_json(r), NL


def run_job(args):
    base, k, job = args
    jf = os.path.join(base, "job%d.json" % k); json.dump(job, open(jf, "w"))
    p = subprocess.run(["/venv/bin/python", WORKER, jf], env=dict(os.environ, PYTHONPATH=os.environ.get("VERIF_REPO", "/repo"), PYTHONDONTWRITEBYTECODE="1"), capture_output=True, text=True, timeout=1700)
    if not os.path.exists(jf + ".out"): raise RuntimeError("zstream worker failed: " + p.stderr[-400:])
    return json.load(open(jf + ".out"))


def write_side(c):
    """any chunking at any level must give a stream that the standard decoders expand to the payload"""
    from joblib.compressor import BinaryZlibFile, BinaryGzipFile
    rng = random.Random(c.seed)
    payloads = [b"", b"x", bytes(rng.getrandbits(8) for _ in range(8191)), bytes(rng.getrandbits(8) for _ in range(8192)), bytes(8193),
                bytes(rng.getrandbits(8) for _ in range(3 * 8192 + 5)), b"ab\n" * 7000]
    chunkings = [lambda n: [n], lambda n: [1] * min(n, 40) + [max(0, n - 40)], lambda n: [8191, 8192, 8193], lambda n: [0, n, 0], lambda n: [n // 3 + 1] * 3]
    for cname, cls, dec in (("zlib", BinaryZlibFile, zlib.decompress), ("gzip", BinaryGzipFile, gzip.decompress)):
        for level in range(1, 10):
            for pi, p in enumerate(payloads):
                for ci, ch in enumerate(chunkings if not c.quick else chunkings[:4]):
                    c.evaluations += 1
                    out = io.BytesIO(); f = cls(out, "wb", compresslevel=level); pos = 0
                    for n in ch(len(p)):
                        f.write(p[pos:pos + n]); pos += n
                    if pos < len(p): f.write(p[pos:])
                    f.close()
                    key = {"side": "write", "class": cname, "level": level, "payload": pi, "chunking": ci}
                    c.nontrivial.add(json.dumps(key))
                    try:
                        ok = dec(out.getvalue()) == p
                        d = zlib.decompressobj(wbits=31 if cname == "gzip" else 15); ok2 = d.decompress(out.getvalue()) + d.flush() == p and d.eof
                    except Exception as ex:
                        ok = ok2 = False; key["exc"] = repr(ex)[:100]
                    if not (ok and ok2):
                        c.violation(key, "C13: %s written with level %d (payload %d bytes, chunking %d) is not expanded to the payload by the standard decoder (%s)" %
                                    (cname, level, len(p), ci, key.get("exc", "different bytes or no end-of-stream")), {})


def body(c):
    base = common.scratch("c13")
    jobs = []
    L = 3        # exhaustive; the thorough tier adds sampled behaviours of length 6 (TLC -simulate) and a larger operand set
    sizes = [0, 1, 100, 8192, 20000] if c.quick else [0, 1, 100, 8191, 8192, 8193, 20000, 70000]
    k = 0
    rng = random.Random(c.seed)
    for S in sizes:
        hists, NL = gen(c, S, L, c.quick)
        c.extra.setdefault("sequences_per_size", {})[str(S)] = len(hists)
        cap = 6000 if c.quick else (20000 if S < 20000 else 8000)
        if len(hists) > cap: hists = rng.sample(hists, cap)
        if not c.quick:
            longer, _ = gen(c, S, 6, c.quick, simulate=(10000 if S < 20000 else 4000))
            c.extra.setdefault("sampled_length6_per_size", {})[str(S)] = len(longer)
            hists = hists + longer
        nsplit = 4 if c.quick else 7
        for kind in ("rand", "zeros"):
            for part in range(nsplit):
                jobs.append((base, k, {"S": S, "NL": NL, "kind": kind, "hists": hists[part::nsplit], "classes": ["zlib", "gzip"],
                                       "levels": [1, 9] if c.quick else [1, 6, 9]})); k += 1
        for h in hists[:1]: c.sample({"S": S, "sequence": h})
    with ThreadPoolExecutor(max_workers=14) as ex:
        results = list(ex.map(run_job, jobs))
    shutil.rmtree(base, ignore_errors=True)
    for (b, k, job), r in zip(jobs, results):
        c.evaluations += r["n"]
        for hi in job["hists"]:
            c.nontrivial.add((job["S"], json.dumps([[e["op"], e["a"], e["b"]] for e in hi])))
        for bd in r["bad"]:
            key = {"side": "read", "class": bd["class"], "level": bd["level"], "S": job["S"], "payload": job["kind"], "ops": [[e["op"], e["a"], e["b"]] for e in bd["hist"]]}
            c.violation(key, "C13: %s (level %d, %d-byte %s payload): after %s the file object gives %s, a byte stream gives %s" %
                        (bd["class"], bd["level"], job["S"], job["kind"], key["ops"], bd.get("got", bd.get("exc")), bd.get("spec")), bd)
    write_side(c)
    c.traces_validated = sum(r["n"] for r in results)
    c.rule = ("read side: every operation sequence of length %d of ZlibStream.tla (read(n), read(), readinto, readline, tell, seek x 3 whence, operands at the block "
              "boundaries and around the payload length) with the responses dictated by the specification, replayed on BinaryZlibFile and BinaryGzipFile over "
              "random and constant payloads of boundary sizes, with io.BytesIO as a second oracle; write side: chunkings x levels 1..9 x payloads decoded by zlib/gzip; "
              "distinct = (payload size, operation sequence) / (class, level, payload, chunking)" % L)
    c.exhaustive = True


common.main("C13", "model_checking", body)
