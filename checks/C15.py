import os, sys, json, subprocess, shutil, random, collections
from concurrent.futures import ThreadPoolExecutor
sys.path.insert(0, os.path.dirname(os.path.dirname(os.path.abspath(__file__))))
from checks import common
from engine import tlc

WORKER = os.path.join(common.VERIF, "harness", "njobs_worker.py")
OSCPUS = os.cpu_count()


def run_worker(base, name, job, timeout=300):
    jf = os.path.join(base, name + ".json"); json.dump(job, open(jf, "w"))
    env = dict(os.environ, PYTHONPATH=os.environ.get("VERIF_REPO", "/repo"), PYTHONDONTWRITEBYTECODE="1"); env.pop("LOKY_MAX_CPU_COUNT", None)
    try:
        p = subprocess.run(["/venv/bin/python", WORKER, jf], env=env, capture_output=True, text=True, timeout=timeout)
    except subprocess.TimeoutExpired:
        return {"error": "timeout"}
    if not os.path.exists(jf + ".out"): return {"error": p.stderr[-500:]}
    return json.load(open(jf + ".out"))


def flatten(node, acc):
    acc.append(node)
    for s in node["sub"]:
        if isinstance(s, dict): flatten(s, acc)
    return acc


def body(c):
    rng = random.Random(c.seed)
    # 1. the specification: arithmetic invariants + nesting machine
    consts = dict(OsCpus=OSCPUS, Affinities={1, 2, 3, OSCPUS}, EnvVals={0, 1, 2, 3, 64}, Backends={"threading", "loky", "multiprocessing", "sequential"}, MaxDepth=3, Gen=False, QuotaHalves={0, 3, 4, 8, 64})
    path = os.path.join(common.VERIF, "out", "cfg", "NJ_mc.cfg")
    tlc.write_cfg(path, constants=consts, init="Init", next="Next", invariants=["NoNestedProcesses", "CpuAtLeastOne", "EffectiveAtLeastOne", "Honours"])
    c.model_check("NJobs[table + nesting depth 3]", "NJobs", path, workers=8, timeout=600)
    path = os.path.join(common.VERIF, "out", "cfg", "NJ_gen.cfg")
    tlc.write_cfg(path, constants=dict(consts, Gen=True), init="InitTable", next="Next", constraint="Emit")
    r = tlc.run("NJobs", path, workers=1, timeout=600); c.add_tlc("NJobs-gen[table]", r)
    rows = tlc.printed_json(r)
    c.extra["table_rows"] = len(rows)
    base = common.scratch("c15")
    # 2. arithmetic under real affinity masks and LOKY_MAX_CPU_COUNT
    groups = collections.defaultdict(list)
    for row in rows: groups[(row["aff"], row["env"], row["quota"])].append(row)
    jobs = [(base, "t_%d_%d_%d" % k, {"mode": "table", "aff": k[0], "env": k[1], "quota": k[2], "rows": [[x["backend"], x["n"]] for x in g]}) for k, g in groups.items()]
    with ThreadPoolExecutor(max_workers=14) as ex:
        res = list(ex.map(lambda a: run_worker(*a), jobs))
    for (b, nm, job), r in zip(jobs, res):
        g = groups[(job["aff"], job["env"], job["quota"])]
        if "error" in r: raise RuntimeError("table worker: " + r["error"])
        if r["cpu_count"] != g[0]["cpus"]:
            c.violation({"kind": "cpu_count", "affinity": job["aff"], "LOKY_MAX_CPU_COUNT": job["env"], "cgroup_quota_cpus": job["quota"] / 2, "got": r["cpu_count"]},
                        "C15: cpu_count() = %d with %d usable CPUs (affinity), LOKY_MAX_CPU_COUNT=%s and a control-group quota of %s CPUs; specification: %d" % (r["cpu_count"], job["aff"], job["env"] or "unset", job["quota"] / 2 or "no", g[0]["cpus"]), {})
        # the count of physical cores cannot exceed the usable CPUs either (NJobs.tla: CpuAtLeastOne / Honours apply to it as an upper bound)
        ph = r.get("cpu_count_physical")
        if ph is not None and not (1 <= ph <= g[0]["cpus"]):
            c.violation({"kind": "cpu_count_physical", "affinity": job["aff"], "LOKY_MAX_CPU_COUNT": job["env"], "got": ph},
                        "C15: cpu_count(only_physical_cores=True) = %d with %d usable CPUs (affinity %d, LOKY_MAX_CPU_COUNT=%s)" % (ph, g[0]["cpus"], job["aff"], job["env"] or "unset"), {})
        for x, got in zip(g, r["rows"]):
            c.evaluations += 1; c.nontrivial.add(("table", x["aff"], x["env"], x["quota"], x["backend"], x["n"]))
            want = x["res"]
            if got[0] != want[0] or (want[0] == "ok" and (got[1] != want[1] or got[2] != want[1])):
                c.violation({"kind": "effective_n_jobs", "backend": x["backend"], "n_jobs": x["n"], "affinity": x["aff"], "LOKY_MAX_CPU_COUNT": x["env"], "cgroup_quota_cpus": x["quota"] / 2, "got": got},
                            "C15: n_jobs=%d on %s with cpu_count()=%d resolves to %s, specification: %s" % (x["n"], x["backend"], x["cpus"], got, want), {})
    # 2b. the same rows while the mask and the variable CHANGE inside one process (nothing about the CPUs may be remembered)
    orders = [[OSCPUS, 2, 3, 1, OSCPUS], [3, OSCPUS, 1, 2], [1, 3, 2, OSCPUS]]
    envs = [[0, 0, 64, 1, 0], [2, 0, 0, 3], [0, 64, 0, 0]]
    sj = []
    for affs, evs in zip(orders, envs):
        steps = []
        for a, e in zip(affs, evs):
            g = groups[(a, e, 0)]
            sub = g if not c.quick else [x for x in g if x["n"] in (-1, -2, 1, 2)]
            steps.append({"aff": a, "env": e, "rows": [[x["backend"], x["n"]] for x in sub], "_g": sub})
        sj.append(steps)
    res = [run_worker(base, "ts_%d" % k, {"mode": "table_seq", "steps": [{kk: v for kk, v in st.items() if kk != "_g"} for st in steps]}) for k, steps in enumerate(sj)]
    for steps, r in zip(sj, res):
        if "error" in r: raise RuntimeError("table_seq worker: " + r["error"])
        hist = []
        for st, out in zip(steps, r["steps"]):
            hist.append([st["aff"], st["env"]])
            if out["cpu_count"] != st["_g"][0]["cpus"]:
                c.violation({"kind": "cpu_count_after_change", "history": list(hist), "got": out["cpu_count"]},
                            "C15: after the (affinity, LOKY_MAX_CPU_COUNT) history %s in one process cpu_count() = %d; specification: %d" % (hist, out["cpu_count"], st["_g"][0]["cpus"]), {})
            for x, got in zip(st["_g"], out["rows"]):
                c.evaluations += 1; c.nontrivial.add(("table_seq", json.dumps(hist), x["backend"], x["n"]))
                want = x["res"]
                if got[0] != want[0] or (want[0] == "ok" and (got[1] != want[1] or got[2] != want[1])):
                    c.violation({"kind": "effective_n_jobs_after_change", "history": list(hist), "backend": x["backend"], "n_jobs": x["n"], "got": got},
                                "C15: after the history %s n_jobs=%d on %s resolves to %s, specification: %s" % (hist, x["n"], x["backend"], got, want), {})
    # 3. real concurrency: all tasks that manage to start block on a gate; at quiescence the count is the high-water mark
    gj = []
    for backend in ("threading", "loky", "multiprocessing"):
        for nj, aff in ((1, 0), (2, 0), (3, 0), (-1, 3), (-2, 4)) if not c.quick else ((2, 0), (3, 0), (-1, 3)):
            for pre, bs in (("2*n_jobs", 1), ("all", 1), (8, 2)) if not c.quick else (("2*n_jobs", 1), ("all", 2)):
                gj.append({"mode": "gate", "backend": backend, "n_jobs": nj, "aff": aff, "pre": pre, "bs": bs, "ntasks": 9, "settle": 1.0 if backend == "threading" else 1.5})
    for k, j in enumerate(gj): j["dir"] = os.path.join(base, "g%d" % k)
    with ThreadPoolExecutor(max_workers=6) as ex:
        res = list(ex.map(lambda kj: run_worker(base, "g%d" % kj[0], kj[1]), enumerate(gj)))
    for j, r in zip(gj, res):
        c.evaluations += 1; c.nontrivial.add(("gate", j["backend"], j["n_jobs"], j["aff"], str(j["pre"]), j["bs"]))
        if "error" in r: raise RuntimeError("gate worker: %s %s" % (j, r["error"]))
        bound = j["n_jobs"] if j["n_jobs"] > 0 else max((j["aff"] or OSCPUS) + 1 + j["n_jobs"], 1)
        running = r["high_water"] if j["bs"] == 1 else r["high_water"]      # one task of a batch runs at a time: started tasks = running batches
        key = {"kind": "concurrency", "backend": j["backend"], "n_jobs": j["n_jobs"], "affinity": j["aff"], "pre_dispatch": j["pre"], "batch_size": j["bs"], "running": running}
        if running > bound:
            c.violation(key, "C15: %d tasks run simultaneously with n_jobs=%d (resolved %d) on %s" % (running, j["n_jobs"], bound, j["backend"]), {})
        if not r["ok"]:
            c.violation(dict(key, kind="wrong_results"), "C15: gated run returned wrong results", {})
        c.sample({"gate": {k: v for k, v in j.items() if k != "dir"}, "high_water": running, "bound": bound}, cap=4)
    # 3b. histories of calls with different n_jobs in one process: ExecutorResize.tla (the reusable loky executor is resized between
    #     the calls) model-checked, its histories replayed with gated tasks on the three backends
    def er_cfg(name, gen=False, **k):
        consts = dict(MaxW=3, NT=3, Calls=3, Timeouts=1, StopSurplus=True, WaitShrunk=True, RecordEarly=True, Gen=gen); consts.update(k)
        p = os.path.join(common.VERIF, "out", "cfg", "ER_%s.cfg" % name)
        if gen: tlc.write_cfg(p, constants=consts, init="Init", next="Next", constraint="Emit")
        else: tlc.write_cfg(p, constants=consts, spec="Spec", invariants=k.pop("_inv", None) or ["Bound", "SizeAtWork", "NoLostSentinel"], properties=["Ends"], view="View")
        return p
    c.model_check("ExecutorResize[3 workers, 3 calls, 1 idle timeout]", "ExecutorResize", er_cfg("mc"), workers=8, timeout=600)
    if not c.quick: c.model_check("ExecutorResize[4 workers, 4 calls]", "ExecutorResize", er_cfg("mc4", MaxW=4, Calls=4, NT=4, Timeouts=2), workers=16, timeout=900)
    p1 = os.path.join(common.VERIF, "out", "cfg", "ER_nostop.cfg")
    tlc.write_cfg(p1, constants=dict(MaxW=3, NT=3, Calls=3, Timeouts=1, StopSurplus=False, WaitShrunk=True, RecordEarly=True, Gen=False), spec="Spec", invariants=["Bound"], view="View")
    r1 = c.model_check("ExecutorResize[surplus workers not stopped]", "ExecutorResize", p1, must_hold=False, workers=4, timeout=600)
    if r1.ok: raise tlc.TLCError("ExecutorResize lost its sensitivity: a shrink that does not stop the surplus workers must break Bound")
    p2 = os.path.join(common.VERIF, "out", "cfg", "ER_nowait.cfg")
    tlc.write_cfg(p2, constants=dict(MaxW=3, NT=3, Calls=3, Timeouts=1, StopSurplus=True, WaitShrunk=False, RecordEarly=True, Gen=False), spec="Spec", invariants=["SizeAtWork"], view="View")
    r2 = c.model_check("ExecutorResize[no wait for the surplus workers]", "ExecutorResize", p2, must_hold=False, workers=4, timeout=600)
    if r2.ok: raise tlc.TLCError("ExecutorResize lost its sensitivity: not waiting for the surplus workers must break SizeAtWork")
    p3 = os.path.join(common.VERIF, "out", "cfg", "ER_norecord.cfg")
    tlc.write_cfg(p3, constants=dict(MaxW=3, NT=3, Calls=3, Timeouts=1, StopSurplus=True, WaitShrunk=True, RecordEarly=False, Gen=False), spec="Spec", invariants=["Bound"], view="View")
    r3 = c.model_check("ExecutorResize[size not recorded for an executor without manager thread]", "ExecutorResize", p3, must_hold=False, workers=4, timeout=600)
    if r3.ok: raise tlc.TLCError("ExecutorResize lost its sensitivity: forgetting the new size of an executor that has no manager thread yet must break Bound")
    c.extra["resize_model_sensitivity_early"] = "size not recorded on the early return -> %s" % (r3.violated,)
    c.extra["resize_model_sensitivity"] = ["surplus workers not stopped -> %s" % (r1.violated,), "no wait for the surplus workers -> %s" % (r2.violated,)]
    r = tlc.run("ExecutorResize", er_cfg("gen", gen=True, Timeouts=0, NT=1), workers=1, timeout=600); c.add_tlc("ExecutorResize-gen[histories]", r)
    # a history = sequence of (n_jobs, tasks?): a call with tasks (gated) or a call that submits nothing (empty input)
    hists = sorted({tuple((n, 1 if k else 0) for n, k in h) for h in tlc.printed_json(r)})
    c.extra["resize_histories"] = len(hists)
    T = lambda *ns: tuple((n, 1) for n in ns)
    interesting = [h for h in hists if len({n for n, _ in h}) >= 2 and sum(k for _, k in h) >= 2]
    if c.quick: interesting = [h for h in interesting if h in (T(3, 1, 2), T(1, 3, 1), T(2, 3, 1), T(3, 2, 3), ((3, 0), (2, 1), (3, 1)), ((2, 1), (3, 0), (2, 1)))]
    sj = []
    for backend in ("loky", "threading", "multiprocessing"):
        for h in interesting:
            if backend != "loky" and c.quick and h not in (T(3, 1, 2), T(1, 3, 1)): continue
            sj.append({"mode": "gate_seq", "backend": backend, "history": [list(x) for x in h], "ntasks": 6, "settle": 1.0 if backend == "threading" else 1.5})
    # the resize path proper: with inner_max_num_threads fixed the executor arguments do not depend on n_jobs
    rs = [T(3, 2, 3), T(2, 3, 2), ((3, 0), (2, 1), (3, 1)), ((2, 1), (3, 0), (2, 1)), ((3, 0), (3, 0), (2, 1))]
    for h in (rs if c.quick else [h for h in interesting if all(n > 1 for n, _ in h)] + rs[2:] + [T(4, 2, 3, 2), T(2, 4, 3, 4), ((4, 0), (2, 1), (3, 0), (2, 1))]):
        sj.append({"mode": "gate_seq", "backend": "loky", "history": [list(x) for x in h], "ntasks": 6, "settle": 1.5, "inner_threads": 1})
    sj.append({"mode": "gate_seq", "backend": "loky", "history": [[3, 1], [1, 1], [2, 1]], "ntasks": 6, "settle": 1.5, "same_object": True})
    for k, j in enumerate(sj): j["dir"] = os.path.join(base, "gs%d" % k)
    with ThreadPoolExecutor(max_workers=6) as ex:
        res = list(ex.map(lambda kj: run_worker(base, "gs%d" % kj[0], kj[1], timeout=600), enumerate(sj)))
    for j, r in zip(sj, res):
        c.evaluations += 1; c.nontrivial.add(("gate_seq", j["backend"], json.dumps(j["history"]), bool(j.get("same_object")), j.get("inner_threads")))
        if "error" in r: raise RuntimeError("gate_seq worker: %s %s" % (j, r["error"]))
        if j.get("inner_threads"):
            c.extra["resize_path_taken"] = c.extra.get("resize_path_taken", 0) + sum(1 for a, b in zip(r["calls"], r["calls"][1:]) if a.get("executor") == b.get("executor"))
        for k, cr in enumerate(r["calls"]):
            # (not for the same-object variant: after a call with n_jobs=1 that object keeps its sequential fall-back, the module's
            # executor is then the one of an earlier call)
            if j["backend"] == "loky" and not j.get("same_object") and cr.get("processes") is not None and cr["n_jobs"] > 1 and cr["processes"] > cr["n_jobs"]:
                c.violation({"kind": "worker_processes_after_history", "history": j["history"][:k + 1], "processes": cr["processes"], "inner_threads": j.get("inner_threads")},
                            "C15: after the calls with n_jobs=%s the executor has %d worker processes for n_jobs=%d" % (j["history"][:k], cr["processes"], cr["n_jobs"]), {})
            key = {"kind": "concurrency_after_history", "inner_threads": j.get("inner_threads"), "backend": j["backend"], "history": j["history"][:k + 1], "same_object": bool(j.get("same_object")), "running": cr["high_water"]}
            if cr["high_water"] > cr["n_jobs"]:
                c.violation(key, "C15: after the calls with n_jobs=%s, %d tasks run simultaneously in a call with n_jobs=%d on %s" % (j["history"][:k], cr["high_water"], cr["n_jobs"], j["backend"]), {})
            if not cr["ok"]:
                c.violation(dict(key, kind="wrong_results_after_history"), "C15: gated call %d of the history %s returned wrong results" % (k, j["history"]), {})
        c.sample({"gate_seq": {k: v for k, v in j.items() if k != "dir"}, "calls": r["calls"]}, cap=3)
    # 4. nesting: no processes below level 0; level 1 on threads, deeper levels sequential
    nj = []
    inners = [{}, {"prefer": "processes"}, {"prefer": "threads"}, {"require": "sharedmem"}]
    for outer in ("loky", "threading", "multiprocessing"):
        for a in inners:
            nj.append({"mode": "nest", "outer": outer, "spec": [a]})
            if not c.quick or a in ({}, {"prefer": "processes"}):
                for b2 in (inners if not c.quick else inners[:2]):
                    nj.append({"mode": "nest", "outer": outer, "spec": [a, b2]})
    with ThreadPoolExecutor(max_workers=5) as ex:
        res = list(ex.map(lambda kj: run_worker(base, "n%d" % kj[0], kj[1], timeout=600), enumerate(nj)))
    for j, r in zip(nj, res):
        c.evaluations += 1; c.nontrivial.add(("nest", j["outer"], json.dumps(j["spec"])))
        if "error" in r: raise RuntimeError("nest worker: %s %s" % (j, r["error"]))
        level0 = {n["me"][0] for n in r["out"]} | {r["main"]}
        key = {"kind": "nesting", "outer": j["outer"], "inner": j["spec"]}
        for top in r["out"]:
            for node in flatten(top, []):
                pids = {s[0] for s in node["sub"] if isinstance(s, list)} | {s["me"][0] for s in node["sub"] if isinstance(s, dict)}
                extra = pids - level0
                if extra:
                    c.violation(dict(key, problem="new_processes", level=node["level"] + 1), "C15: a Parallel call nested at level %d inside %s workers (arguments %s) ran its tasks in %d new worker processes" %
                                (node["level"] + 1, j["outer"], j["spec"][node["level"]], len(extra)), {"node": node})
                if node["level"] == 0 and node["backend"] not in ("ThreadingBackend", "SequentialBackend"):
                    c.violation(dict(key, problem="level1_backend", backend=node["backend"]), "C15: first nesting level uses %s" % node["backend"], {})
                if node["level"] >= 1 and (node["backend"] != "SequentialBackend" and node["eff"] != 1):
                    c.violation(dict(key, problem="deep_level_not_sequential", backend=node["backend"], eff=node["eff"]),
                                "C15: nesting level %d uses %s with %d workers (must be sequential)" % (node["level"] + 1, node["backend"], node["eff"]), {})
        c.sample({"nest": {"outer": j["outer"], "spec": j["spec"]}, "level1": [{k: v for k, v in n.items() if k != "sub"} for n in r["out"]]}, cap=6)
    shutil.rmtree(base, ignore_errors=True)
    c.traces_validated = len(gj) + len(nj) + len(sj)
    c.exhaustive = True
    c.rule = ("(a) every row of NJobs.tla's table: affinity mask size {1,2,3,all} x LOKY_MAX_CPU_COUNT {unset,1,2,3,64} x control-group CPU quota {none, 1.5, 2, 4, 32} x backend x n_jobs in [-2c, 2c] evaluated by the real "
              "cpu_count / effective_n_jobs under a real sched_setaffinity mask; (b) gated tasks on threading, loky, multiprocessing: tasks that start block until the "
              "number of started tasks is stable, the high-water mark must not exceed the resolved n_jobs; (b2) histories of such calls with different n_jobs in one process "
              "(generated from ExecutorResize.tla: the reused loky executor is resized, pools are rebuilt), the bound must hold in every call; (c) nested Parallel calls (depth 2-3, inner arguments "
              "default / prefer / require) inside loky, threading and multiprocessing workers: pids of nested tasks must be level-0 pids, level 1 threads, deeper sequential")
    c.assumptions += ["cgroup CPU quota of the sandbox does not bind (os.cpu_count() CPUs usable)", "quiescence = count of started tasks stable for 1-1.5 s"]


common.main("C15", "model_checking", body)
