import os, sys, json, shutil, subprocess, glob, collections
from concurrent.futures import ThreadPoolExecutor
sys.path.insert(0, os.path.dirname(os.path.dirname(os.path.abspath(__file__))))
from checks import common
from engine import tlc

PY = "/venv/bin/python"
SESSION = os.path.join(common.VERIF, "harness", "memsession.py")
KEYVAL = {"a": 3, "b": 4}


def mcfg(name, gen=False, maxops=6, procs=(1, 2), slots=(1, 2), stores=(1,), fix=(True, True, True, True, True), aliased=(), homonyms=(), invariants=("ValueCorrect",), props=("HitWhenDue",)):
    path = os.path.join(common.VERIF, "out", "cfg", "MD_%s.cfg" % name)
    consts = dict(Procs=set(procs), Slots=set(slots), Vers={1, 2}, Keys={"a", "b"}, Stores=set(stores), MaxOps=maxops, FixD6=fix[0], FixD13=fix[1], FixD5c=fix[2], FixD20=(fix[3] if len(fix) > 3 else True), FixD21=(fix[4] if len(fix) > 4 else True), Aliased=set(aliased), Homonyms=set(homonyms), Gen=gen)
    if gen:
        tlc.write_cfg(path, constants=consts, init="Init", next="Next", constraint="Emit")
    else:
        tlc.write_cfg(path, constants=consts, spec="Spec", invariants=invariants, properties=props, view="View")
    return path


class Session:
    def __init__(self, root, work, kind, stores=(1, 2), alias=(), verbose=0, homonyms=()):
        env = dict(os.environ, PYTHONPATH=os.environ.get("VERIF_REPO", "/repo"), PYTHONHASHSEED="0", PYTHONDONTWRITEBYTECODE="1")
        self.p = subprocess.Popen([PY, "-u", SESSION, json.dumps({"root": root, "work": work, "kind": kind, "stores": list(stores), "alias": list(alias), "homonyms": list(homonyms), "verbose": verbose, "log": os.path.join(root, "..", "exec.log")})], env=env,
                                  stdin=subprocess.PIPE, stdout=subprocess.PIPE, stderr=subprocess.PIPE, text=True, bufsize=1)

    def do(self, op):
        self.p.stdin.write(json.dumps(op) + "\n"); self.p.stdin.flush()
        line = self.p.stdout.readline()
        if not line:
            return {"exc": "SessionDied", "msg": self.p.stderr.read()[-300:]}
        return json.loads(line)

    def close(self):
        try:
            self.p.stdin.write('{"op": "quit"}\n'); self.p.stdin.flush(); self.p.wait(5)
        except Exception:
            self.p.kill()


def evict(root, keyval):
    n = 0
    for m in glob.glob(os.path.join(root, "joblib", "**", "metadata.json"), recursive=True):
        try:
            if json.load(open(m)).get("input_args", {}).get("x") == repr(keyval):
                shutil.rmtree(os.path.dirname(m), ignore_errors=True); n += 1
        except (OSError, ValueError):
            pass
    return n


def replay(args):
    """Replay one model history on a real Memory.  The oracle is property-level: the version tag of the returned value must
    be the version of the code that was called; a call that is due to hit must not execute the body."""
    hid, hist, kind, base = args[:4]; alias = args[4] if len(args) > 4 else (); homonyms = args[5] if len(args) > 5 else ()
    ph = lambda st: 1 if st in alias else st
    d = os.path.join(base, "h%d" % hid); root = os.path.join(d, "cache"); os.makedirs(root)
    sessions = {}; nsess = [0]
    ocode = {}; must = {}; problems = []; calls = 0

    def sess(p):
        if p not in sessions:
            nsess[0] += 1
            w = os.path.join(d, "work%d" % nsess[0]); os.makedirs(w)
            sessions[p] = Session(root, w, kind, alias=alias, verbose=(0, 1, 11)[hid % 3], homonyms=homonyms)
        return sessions[p]
    try:
        for n, e in enumerate(hist):
            op = e["op"]
            if op == "define":
                r = sess(e["p"]).do({"op": "define", "i": e["i"], "v": e["v"], "shift": (n % 3) if kind not in ("main", "inplace", "nosource") else 0})
                ocode[(e["p"], e["i"])] = e["v"]
            elif op == "swap":
                r = sess(e["p"]).do({"op": "swap", "i": e["i"], "v": e["v"]}); ocode[(e["p"], e["i"])] = e["v"]
            elif op == "restart":
                if e["p"] in sessions: sessions.pop(e["p"]).close()
                for o in [o for o in ocode if o[0] == e["p"]]: del ocode[o]
                r = {}
            elif op == "clear":
                r = sess(e["p"]).do({"op": "clear", "i": e["i"], "s": e.get("s", 1)})
                for kk in [kk for kk in must if kk[0] == ph(e.get("s", 1))]: del must[kk]
            elif op == "evict":
                evict(os.path.join(root, "h%s" % e.get("s", 1), "relstore") if homonyms else os.path.join(root, "store%s" % ph(e.get("s", 1))), KEYVAL[e["k"]]); must.pop((ph(e.get("s", 1)), e["k"]), None); r = {}
            elif op in ("call", "force"):
                v = ocode[(e["p"], e["i"])]; st = e.get("s", 1); k = (ph(st), e["k"]); calls += 1
                r = sess(e["p"]).do({"op": op, "i": e["i"], "s": st, "k": KEYVAL[e["k"]], "copy": (hid + n) % 3 == 2})
                if "exc" not in r:
                    if r["value"] != ["v%d" % v, KEYVAL[e["k"]]]:
                        problems.append({"kind": "value_of_other_code", "step": n, "called_version": v, "got": r["value"]})
                    elif op == "force" and not r["executed"]:
                        problems.append({"kind": "forced_call_not_executed", "step": n, "called_version": v})
                    elif op == "call" and must.get(k) == v and r["executed"]:
                        problems.append({"kind": "executed_although_cached", "step": n, "called_version": v})
                    if any(mv != v for kk, mv in must.items() if kk[0] == ph(st)):
                        for kk in [kk for kk in must if kk[0] == ph(st)]: del must[kk]
                    must[k] = v
            if "exc" in r:
                problems.append({"kind": "exception", "step": n, "op": e, "exc": r["exc"], "msg": r.get("msg")})
                break
    finally:
        for s in sessions.values(): s.close()
        shutil.rmtree(d, ignore_errors=True)
    return hid, calls, problems


def body(c):
    # 1. model check (all histories up to the bound), incl. sensitivity to the repaired defects
    # sessions are sequential in C12's quantifier (one process, or fresh processes one after the other): one process + Restart
    c.model_check("MemoryDesign[sequential sessions,7ops]", "MemoryDesign", mcfg("mc7", maxops=7, procs=(1,)), workers=16)
    c.model_check("MemoryDesign[two stores,6ops]", "MemoryDesign", mcfg("mc6s2", maxops=6, procs=(1,), slots=(1, 2), stores=(1, 2)), workers=16)
    if not c.quick:
        c.model_check("MemoryDesign[sequential sessions,10ops]", "MemoryDesign", mcfg("mc10", maxops=10, procs=(1,)), workers=16, timeout=1500)
    sens = []
    # documented limit (outside the quantifier): two processes alive at the same time with different versions - the in-memory
    # shortcut of one cannot see that the other rewrote the stored source
    r = c.model_check("MemoryDesign[two live processes - documented limit]", "MemoryDesign", mcfg("limit2", maxops=5), must_hold=False, workers=16)
    sens.append("two simultaneously live processes with different versions -> %s (documented limit, not claimed)" % (r.violated,))
    c.model_check("MemoryDesign[one directory under two spellings,6ops]", "MemoryDesign", mcfg("mc6alias", maxops=6, procs=(1,), stores=(1, 2), aliased=(2,)), workers=16)
    c.model_check("MemoryDesign[one spelling, two directories,6ops]", "MemoryDesign", mcfg("mc6homonym", maxops=6, procs=(1,), stores=(1, 2), homonyms=(2,)), workers=16)
    for nm, fx in (("D6_off", (False, True, True)), ("D13_off", (True, False, True)), ("D20_off", (True, True, True, False)), ("D21_off", (True, True, True, True, False)),
                   ("D21_homonym_off", (True, True, True, True, False))):
        kw = dict(stores=(1, 2), aliased=(2,)) if nm == "D21_off" else dict(stores=(1, 2), homonyms=(2,)) if nm == "D21_homonym_off" else {}
        r = c.model_check("MemoryDesign[%s]" % nm, "MemoryDesign", mcfg(nm, maxops=6, fix=fx, procs=(1,), **kw), must_hold=False, workers=16)
        if r.ok: raise tlc.TLCError("MemoryDesign lost its sensitivity to %s" % nm)
        sens.append("%s -> %s" % (nm, r.violated))
    c.extra["model_sensitivity"] = sens
    # 2. generated histories: every behaviour of length L for one process with 2 live slots (exhaustive), sampled for 2 processes
    hists = {}
    L = 4 if c.quick else 5
    r = tlc.run("MemoryDesign", mcfg("gen1", gen=True, maxops=L, procs=(1,), slots=(1, 2)), workers=1, timeout=1500, heap="6g")
    c.add_tlc("MemoryDesign-gen[1proc,L=%d]" % L, r)
    h1 = tlc.printed_json(r)
    r = tlc.run("MemoryDesign", mcfg("gen2", gen=True, maxops=7 if c.quick else 9, procs=(1,), slots=(1, 2)), simulate="num=%d" % (300 if c.quick else 3000),
                depth=12, seed=c.seed + 3, workers=1, timeout=900)
    c.add_tlc("MemoryDesign-simulate[long]", r)
    h2 = tlc.printed_json(r)
    r = tlc.run("MemoryDesign", mcfg("gen3", gen=True, maxops=6 if c.quick else 8, procs=(1,), slots=(1, 2), stores=(1, 2)), simulate="num=%d" % (300 if c.quick else 3000),
                depth=12, seed=c.seed + 5, workers=1, timeout=900)
    c.add_tlc("MemoryDesign-simulate[two stores]", r)
    h2 += tlc.printed_json(r)
    r = tlc.run("MemoryDesign", mcfg("gen4", gen=True, maxops=6 if c.quick else 8, procs=(1,), slots=(1, 2), stores=(1, 2), aliased=(2,)), simulate="num=%d" % (300 if c.quick else 3000),
                depth=12, seed=c.seed + 9, workers=1, timeout=900)
    c.add_tlc("MemoryDesign-simulate[one directory, two spellings]", r)
    h3 = [h for h in tlc.printed_json(r) if sum(1 for e in h if e["op"] in ("call", "force")) >= 2 and len({e.get("s") for e in h if "s" in e}) == 2]
    import random
    rng = random.Random(c.seed)
    # histories without any call teach nothing; keep those with >= 2 calls
    h1 = [h for h in h1 if sum(1 for e in h if e["op"] in ("call", "force")) >= 2]
    h2 = [h for h in h2 if sum(1 for e in h if e["op"] in ("call", "force")) >= 2]
    cap = 700 if c.quick else 12000
    if len(h1) > cap: h1 = rng.sample(h1, cap)
    c.extra["histories_module_1proc"] = len(h1); c.extra["histories_module_long"] = len(h2)
    base = common.scratch("c12")
    jobs = []; hid = 0
    for h in h1 + h2:
        jobs.append((hid, h, "module", base)); hid += 1
    c.extra["histories_two_spellings"] = len(h3)
    for h in h3:
        jobs.append((hid, h, "module", base, (2,))); hid += 1
    # one spelling, two directories (a relative location and a change of working directory): TLC-simulated histories
    r = tlc.run("MemoryDesign", mcfg("gen5", gen=True, maxops=6 if c.quick else 8, procs=(1,), slots=(1, 2), stores=(1, 2), homonyms=(2,)), simulate="num=%d" % (300 if c.quick else 3000),
                depth=12, seed=c.seed + 13, workers=1, timeout=900)
    c.add_tlc("MemoryDesign-simulate[one spelling, two directories]", r)
    h4 = [h for h in tlc.printed_json(r) if sum(1 for e in h if e["op"] in ("call", "force")) >= 2 and len({e.get("s") for e in h if "s" in e}) == 2]
    c.extra["histories_homonyms"] = len(h4)
    for h in h4:
        jobs.append((hid, h, "module", base, (), (2,))); hid += 1
    # other function kinds: single live slot histories (nested / lambda / __main__ script edited in place)
    single = [h for h in h1 if all(e.get("i", 1) == 1 for e in h)]
    # the histories that matter most for the other kinds: a call, then the definition changes (new object or swapped code), then a call
    def changes(h):
        ops = [e["op"] for e in h]
        return ("swap" in ops or ops.count("define") >= 2) and sum(1 for o in ops if o in ("call", "force")) >= 2
    hot = [h for h in single if changes(h)]; cold = [h for h in single if not changes(h)]
    per_kind = (150, 40) if c.quick else (3000, 600)
    c.extra["single_slot_histories"] = {"with_redefinition": len(hot), "other": len(cold)}
    for kind in ("nested", "lambda", "main", "indent", "inplace", "nosource"):
        pick = (hot if len(hot) <= per_kind[0] else rng.sample(hot, per_kind[0])) + (cold if len(cold) <= per_kind[1] else rng.sample(cold, per_kind[1]))
        for h in pick:
            if kind in ("main", "inplace") and any(e.get("shift") for e in h): pass
            jobs.append((hid, h, kind, base)); hid += 1
    with ThreadPoolExecutor(max_workers=14) as ex:
        results = list(ex.map(replay, jobs))
    shutil.rmtree(base, ignore_errors=True)
    byid = {j[0]: j for j in jobs}
    for hid, calls, problems in results:
        c.evaluations += 1
        _, hist, kind = byid[hid][:3]
        c.nontrivial.add((kind, json.dumps(hist, sort_keys=True)))
        for pb in problems:
            key = {"kind": pb["kind"], "function_kind": kind, "history": [[e["op"]] + [e.get(x) for x in ("p", "i", "v", "s", "k") if x in e] for e in hist]}
            c.violation(key, "C12: %s (function kind %s) in history %s: %s" % (pb["kind"], kind, key["history"], pb), {})
    for j in jobs[:: max(1, len(jobs) // 4)][:4]:
        c.sample({"function_kind": j[2], "history": j[1]})
    c.traces_validated = len(results)
    c.rule = ("histories over define(version) / swap __code__ / call(arg) / forced call(arg) / restart process / clear / evict on same-named functions sharing one "
              "cache directory: every behaviour of MemoryDesign.tla of length %d for one process with two live objects, TLC-simulated longer ones "
              "for two processes, replayed on real Memory sessions (module-level, nested, lambda, __main__, a module-level function whose versions differ only in the indentation of one line, a module file edited in place, a __main__ function without retrievable source); distinct = (function kind, history) "
              "with >= 2 calls" % L)
    c.assumptions += ["versions differ in their source text; calls are sequential (no concurrent sessions)", "eviction emulated by removing the entry directory"]


common.main("C12", "model_checking", body)
