"""C02 / C06: generated programs of cached calls.  Signatures and call shapes come from ArgBinding.tla (TLC enumeration);
two call shapes are *equivalent forms* iff ArgBinding binds the same values to the same parameters; the value universe is a
set of near-colliding typed values.  The oracle for values is the undecorated function itself."""
import os, sys, json, subprocess, collections, random, shutil
VERIF = os.path.dirname(os.path.dirname(os.path.abspath(__file__)))
if VERIF not in sys.path: sys.path.insert(0, VERIF)
from checks import common, argbind
from engine import tlc

PY = "/venv/bin/python"
WORKER = os.path.join(VERIF, "harness", "sigprog.py")

PRELUDE = '''COUNT = [0]
COUNTING = True


class Opaque:
    """an argument without a repr of its own (its repr is the default one, with an address)"""
    def __init__(self, v): self.v = v


class Tagger:
    """a method whose receiver is positional-only: a keyword spelled like it belongs to **labels"""
    def __init__(self, state): self.state = state

    def tag(this, /, **labels):
        _ran("tag")
        return (this.state, sorted(labels.items()))

    @classmethod
    def make(cls, /, **options):
        _ran("make")
        return (cls.__name__, sorted(options.items()))


class SubTagger(Tagger):
    pass


TAG_A = Tagger("A")
TAG_B = Tagger("B")


def apply_named(func, x, object_name="n", self_like=0):
    """parameter names that joblib's own helpers use for themselves"""
    _ran("apply_named")
    return (func, x, object_name, self_like)


def opaque_user(o, x):
    _ran("opaque_user")
    return (o.v, x)


def _ran(name):
    if COUNTING:
        COUNT[0] += 1


def _v(x):
    t = type(x).__name__
    if isinstance(x, dict):
        return (t, sorted((_v(k), _v(v)) for k, v in x.items()))
    if isinstance(x, (set, frozenset)):
        return (t, sorted(_v(e) for e in x))
    if isinstance(x, (list, tuple)):
        return (t, [_v(e) for e in x])
    return (t, repr(x))
'''

BASES = ["1", "'a'", "(1,)", "0.0", "None", "{'k': 1, 'j': 2}", "set(['x', 'y', 'z'])", "{'g': 0.5, 1: 'x', None: 'd'}", "set(['x', 1, None])"]
PARTNERS = {"1": ["1.0", "True", "'1'"], "'a'": ["b'a'", "'b'"], "(1,)": ["[1]", "(1.0,)"], "0.0": ["-0.0", "0"], "None": ["0", "False"],
            "{'k': 1, 'j': 2}": ["{'k': 1, 'j': 2.0}", "{'k': 1}", "[('k', 1), ('j', 2)]"], "set(['x', 'y', 'z'])": ["frozenset(['x', 'y', 'z'])", "['x', 'y', 'z']"],
            # keys / elements that cannot be ordered together (the order-insensitive fallback of the hasher)
            "{'g': 0.5, 1: 'x', None: 'd'}": ["{'g': 0.5, 1: 'x', None: 'e'}", "{'g': 0.5, 1: 'x'}"], "set(['x', 1, None])": ["frozenset(['x', 1, None])", "set(['x', 1])"]}
REBUILT = {"{'k': 1, 'j': 2}": "{'j': 2, 'k': 1}", "set(['x', 'y', 'z'])": "set(['z', 'y', 'x'])",
           "{'g': 0.5, 1: 'x', None: 'd'}": "{None: 'd', 1: 'x', 'g': 0.5}", "set(['x', 1, None])": "set([None, 1, 'x'])"}      # same value, other insertion order


def sig_source(name, sig, drop=(), method=False, is_async=False):
    names = ["p%d" % i for i in range(1, len(sig) + 1)]
    parts = []; kinds = [p["k"] for p in sig]
    for i, p in enumerate(sig):
        k = p["k"]; nm = names[i]
        if k in ("PK", "VA", "KO", "VK") and "PO" in kinds and "/" not in parts: parts.append("/")
        if k == "KO" and "VA" not in kinds and "*" not in parts: parts.append("*")
        s = {"PO": nm, "PK": nm, "VA": "*" + nm, "KO": nm, "VK": "**" + nm}[k]
        if p["d"]: s += "=('dflt', %d)" % (i + 1)
        parts.append(s)
    if "PO" in kinds and "/" not in parts: parts.append("/")
    ret = "{%s}" % ", ".join("%r: _v(%s)" % (n, n) for n in names if n not in drop)
    if method:
        return "class C_%s:\n    def __init__(self):\n        self.state = %r\n\n    def m(self, %s):\n        _ran(%r)\n        return %s\n\n\nINST_%s = C_%s()\n" % (
            name, name, ", ".join(parts), name, ret, name, name)
    return "%sdef %s(%s):\n    _ran(%r)\n    return %s\n" % ("async " if is_async else "", name, ", ".join(parts), name, ret)


def call_exprs(st, names, val, foreign="zz"):
    """python source of (args tuple, kwargs dict) for call shape st with value expressions val[token]; `foreign` spells the
    keyword no parameter has (any string is a legal keyword through ** expansion - also '*' and '**')"""
    args = [val(("pos", j)) for j in range(st["npos"])]
    kwargs = {(foreign if i == 0 else names[i - 1]): val(("kw", i)) for i in st["kw"]}
    return "(" + "".join(a + ", " for a in args) + ")", "{" + ", ".join("%r: %s" % (k, v) for k, v in sorted(kwargs.items())) + "}"


def build_program(states, rng, per_sig=6, kinds=("function",), max_sigs=None):
    """Returns (module source, steps, expectations)."""
    by_sig = collections.OrderedDict()
    for st in states:
        if st["res"][0] != "ok": continue
        by_sig.setdefault(json.dumps(st["sig"]), []).append(st)
    sigs = list(by_sig.items())
    if max_sigs and len(sigs) > max_sigs:
        sigs = rng.sample(sigs, max_sigs)
    src = [PRELUDE]; steps = []; exp = []

    def add(step, **e):
        steps.append(step); exp.append(e)
    for n, (sj, shapes) in enumerate(sigs):
        sig = json.loads(sj); names = ["p%d" % i for i in range(1, len(sig) + 1)]
        kind = kinds[n % len(kinds)]
        fname = "f%d" % n
        fk = ("zz", "*", "zz", "**", "zz", "self")[n % 6] if kinds == ("function",) else "zz"
        cx = lambda st_, names_, val_, fk=fk: call_exprs(st_, names_, val_, foreign=fk)
        src.append(sig_source(fname, sig, method=(kind == "method"), is_async=(kind == "async")))
        # value of parameter i when explicitly passed; defaults are the declared defaults
        pv = {i: BASES[(i + n) % len(BASES)] for i in range(1, len(sig) + 1)}

        def image(st):
            """canonical bound values (as source text) of shape st under pv: the equivalence class of the call"""
            out = []
            for i, b in enumerate(st["res"][1], 1):
                if b[0] in ("pos", "kw"): out.append(pv[i] if sig[i - 1]["k"] in ("PO", "PK", "KO") else None)
                elif b[0] == "dflt": out.append("dflt%d" % i)
                elif b[0] == "star": out.append(("star", b[2] - b[1]))
                else: out.append(("kw", tuple(b[1])))
            return json.dumps(out)

        def val_for(st, override=None):
            npar = sum(1 for p in sig if p["k"] in ("PO", "PK"))

            def val(tok):
                if tok[0] == "pos":
                    j = tok[1]
                    v = pv[j + 1] if j < npar else "('extra', %d)" % j
                    return override.get(("pos", j), v) if override else v
                i = tok[1]
                v = "('zz',)" if i == 0 else pv[i]
                return override.get(("kw", i), v) if override else v
            return val
        # a call that spells a default out is equivalent to omitting it: give such parameters the default value
        chosen = shapes if len(shapes) <= per_sig else rng.sample(shapes, per_sig)
        classes = collections.defaultdict(list)
        for st in shapes:
            classes[image(st)].append(st)
        base = dict(f=fname, kind=kind)
        if n % 6 == 4:
            # every sixth function goes through a very verbose Memory (messages are built from the arguments and the metadata)
            base.update(verbose=11, store="_V11")
        elif n % 6 == 1:
            base.update(verbose=1, store="_V1")          # the default verbosity
        elif n % 6 == 3:
            base.update(store="_USER")                   # a user-registered store backend
        if n % 4 == 2 and kind == "function":
            base.update(pickled=True)                    # the wrapper went through pickle
        for st in chosen:
            a, k = cx(st, names, val_for(st))
            add(dict(base, args=a, kwargs=k, mode="check"), role="check_before", cls=(n, image(st)))
            add(dict(base, args=a, kwargs=k, mode="call"), role="call", cls=(n, image(st)))
            # equivalent forms: other shapes with the same image
            for st2 in [s for s in classes[image(st)] if s is not st][:2]:
                a2, k2 = cx(st2, names, val_for(st2))
                add(dict(base, args=a2, kwargs=k2, mode="call"), role="equiv", cls=(n, image(st)))
            # rebuilt containers (other insertion order) are the same value
            toks = [("pos", j) for j in range(st["npos"])] + [("kw", i) for i in st["kw"] if i != 0 and sig[i - 1]["k"] != "PO"]
            for tok in toks:
                v = val_for(st)(tok)
                if v in REBUILT:
                    a2, k2 = cx(st, names, val_for(st, {tok: REBUILT[v]}))
                    add(dict(base, args=a2, kwargs=k2, mode="call"), role="equiv", cls=(n, image(st)))
                    break
            # a default spelled out (positionally or by keyword) is the same call
            for i, b in enumerate(st["res"][1], 1):
                if b[0] != "dflt": continue
                for st2 in shapes:
                    b2 = st2["res"][1]
                    if b2[i - 1][0] == "dflt" or any(x[0] != y[0] or (x[0] in ("star", "starstar") and x != y) for j, (x, y) in enumerate(zip(st["res"][1], b2)) if j != i - 1):
                        continue
                    tok = ("pos", b2[i - 1][1]) if b2[i - 1][0] == "pos" else ("kw", i)
                    a2, k2 = cx(st2, names, val_for(st2, {tok: "('dflt', %d)" % i}))
                    add(dict(base, args=a2, kwargs=k2, mode="call"), role="equiv", cls=(n, image(st)))
                    break
            add(dict(base, args=a, kwargs=k, mode="check"), role="check_after", cls=(n, image(st)))
            add(dict(base, args=a, kwargs=k, mode="shelve"), role="equiv", cls=(n, image(st)))
            if n % 2 == 0 and st is chosen[0]:
                # a forced execution through .call() stores its result like an ordinary call of the same arguments - and not
                # like the call whose two positional arguments are the packed (args, kwargs) of this one
                add(dict(base, args=a, kwargs=k, mode="force"), role="force", cls=(n, image(st)))
                add(dict(base, args=a, kwargs=k, mode="call"), role="equiv", cls=(n, image(st)))
                if any(s2["npos"] == 2 and not s2["kw"] for s2 in shapes):
                    add(dict(base, args="(%s, %s, )" % (a, k), kwargs="{}", mode="call"), role="perturbed", cls=(n, "packed|" + image(st)))
            # near-colliding value in exactly one bound parameter: never the same entry
            if toks:
                tok = toks[rng.randrange(len(toks))]
                v = val_for(st)(tok)
                for alt in PARTNERS.get(v, [])[:2]:
                    a2, k2 = cx(st, names, val_for(st, {tok: alt}))
                    add(dict(base, args=a2, kwargs=k2, mode="call"), role="perturbed", cls=(n, image(st) + "|" + str(tok) + alt))
        # ignore list: another value of an ignored parameter is the same call
        named = [i for i, p in enumerate(sig, 1) if p["k"] in ("PK", "KO")]
        if kind == "function" and len(named) >= 1:
            ig = names[named[-1] - 1]
            src.append(sig_source(fname + "_ig", sig, drop=(ig,)))
            cand = [s for s in shapes if named[-1] in s["kw"]]
            if cand:
                st = cand[0]; a, k = cx(st, names, val_for(st))
                b2 = dict(f=fname + "_ig", kind="function", ignore=[ig])
                add(dict(b2, args=a, kwargs=k, mode="call"), role="call", cls=(n, "ig" + image(st)))
                a2, k2 = cx(st, names, val_for(st, {("kw", named[-1]): "('other value',)"}))
                add(dict(b2, args=a2, kwargs=k2, mode="check"), role="check_after", cls=(n, "ig" + image(st)))
                add(dict(b2, args=a2, kwargs=k2, mode="call"), role="equiv", cls=(n, "ig" + image(st)))
        # two partials over the same function that differ only in a frozen argument are different functions
        npar = sum(1 for p in sig if p["k"] in ("PO", "PK"))
        if kind == "function" and npar >= 2 and n % 3 == 0:
            cand = [s for s in shapes if s["npos"] == npar and not s["kw"]]
            if cand:
                st = cand[0]
                rest = "(" + "".join(val_for(st)(("pos", j)) + ", " for j in range(1, npar)) + ")"
                for fz in (pv[1], PARTNERS[pv[1]][0], "('frozen', 3)"):
                    add(dict(f=fname, kind="partial", frozen="(%s,)" % fz, args=rest, kwargs="{}", mode="call"), role="call", cls=(n, "partial", fz))
                    add(dict(f=fname, kind="partial", frozen="(%s,)" % fz, args=rest, kwargs="{}", mode="shelve"), role="equiv", cls=(n, "partial", fz))
                # partials dressed up as their function (functools.update_wrapper(partial(f, ...), f)): same name, still different functions.
                # They share the identifier of f, so they get a copy of f of their own (same-named callables evict each other by design)
                src.append(sig_source(fname + "_wp", sig))
                for fz in (pv[1], PARTNERS[pv[1]][0]):
                    add(dict(f=fname + "_wp", kind="partial", wrapped=True, frozen="(%s,)" % fz, args=rest, kwargs="{}", mode="call"), role="call", cls=(n, "wpartial", fz))
                    add(dict(f=fname + "_wp", kind="partial", wrapped=True, frozen="(%s,)" % fz, args=rest, kwargs="{}", mode="shelve"), role="equiv", cls=(n, "wpartial", fz))
        # the same function cached through two Memory objects (two directories)
        if kind == "function" and n % 4 == 1:
            st = shapes[0]; a, k = cx(st, names, val_for(st))
            for store in ("_A", "_B"):
                add(dict(base, args=a, kwargs=k, mode="call", store=store), role="call", cls=(n, "store" + store, image(st)))
                add(dict(base, args=a, kwargs=k, mode="check", store=store), role="check_after", cls=(n, "store" + store, image(st)))
        # the very same bytes / str object passed for two parameters, then equal but distinct objects: the same call
        if kind in ("function", "method") and npar >= 2 and n % 3 == 1:
            cand = [s for s in shapes if s["npos"] == npar and not s["kw"]]
            if cand:
                st = cand[0]
                for lit, other in (("b'xy'", "bytes(bytearray(b'xy'))"), ("'xy'", "''.join(['x', 'y'])")):
                    shared = "(" + "".join(lit + ", " for _ in range(npar)) + ")"            # one constant of one code object: one object
                    apart = "(" + lit + ", " + "".join(other + ", " for _ in range(npar - 1)) + ")"
                    add(dict(base, args=shared, kwargs="{}", mode="call"), role="call", cls=(n, "shared", lit))
                    add(dict(base, args=apart, kwargs="{}", mode="check"), role="check_after", cls=(n, "shared", lit))
                    add(dict(base, args=apart, kwargs="{}", mode="call"), role="equiv", cls=(n, "shared", lit))
        # decorating an already cached function again (e.g. to add an ignore list) still gives a caching wrapper of its kind
        if kind in ("function", "async") and n % 5 == 3:
            st = shapes[0]; a, k = cx(st, names, val_for(st))
            add(dict(base, args=a, kwargs=k, mode="call", redecorate=True), role="call", cls=(n, "redecorated", image(st)))
            add(dict(base, args=a, kwargs=k, mode="check", redecorate=True), role="check_after", cls=(n, "redecorated", image(st)))
            add(dict(base, args=a, kwargs=k, mode="call", redecorate=True), role="equiv", cls=(n, "redecorated", image(st)))
        # one relative location used from two working directories: same spelling, two directories
        if kind == "function" and n % 4 == 2:
            st = shapes[0]; a, k = cx(st, names, val_for(st))
            for store in ("_REL@A", "_REL@B"):
                add(dict(base, args=a, kwargs=k, mode="call", store=store), role="call", cls=(n, "store" + store, image(st)))
                add(dict(base, args=a, kwargs=k, mode="check", store=store), role="check_after", cls=(n, "store" + store, image(st)))
    # hand-written corner cases (once per program)
    for fz in ("Opaque(1)", "Opaque(2)"):
        # two partials of one function whose frozen arguments differ only in identity / state (same repr up to an address)
        add(dict(f="opaque_user", kind="partial", frozen="(%s,)" % fz, args="(7,)", kwargs="{}", mode="call"), role="call", cls=("opaque", fz))
        add(dict(f="opaque_user", kind="partial", frozen="(%s,)" % fz, args="(7,)", kwargs="{}", mode="shelve"), role="equiv", cls=("opaque", fz))
    for tgt in ("TAG_A.tag", "TAG_B.tag"):
        add(dict(f=tgt, kind="expr", args="()", kwargs="{'this': 3}", mode="call"), role="call", cls=("tag", tgt))
        add(dict(f=tgt, kind="expr", args="()", kwargs="{'this': 3}", mode="call"), role="equiv", cls=("tag", tgt))
    # a Memory with its default verbosity (1) formats every call it computes: argument names must not collide with its helpers'
    for kw in ("{'func': 'abs', 'x': 1}", "{'x': 2, 'func': 'f', 'object_name': 'o'}"):
        add(dict(f="apply_named", kind="function", args="()", kwargs=kw, mode="call", verbose=1, store="_V"), role="call", cls=("named", kw))
        add(dict(f="apply_named", kind="function", args="()", kwargs=kw, mode="call", verbose=1, store="_V"), role="equiv", cls=("named", kw))
    for tgt in ("Tagger.make", "SubTagger.make"):
        add(dict(f=tgt, kind="expr", args="()", kwargs="{'cls': 'encoder'}", mode="call"), role="call", cls=("make", tgt))
    return "\n\n".join(src), steps, exp


def run_program(base, tag, module_src, steps, root=None):
    d = os.path.join(base, tag); os.makedirs(d, exist_ok=True)
    prog = {"root": root or os.path.join(base, "cache"), "moddir": os.path.join(base, "mod"), "module_src": module_src, "steps": steps}
    pf = os.path.join(d, "prog.json"); json.dump(prog, open(pf, "w"))
    env = dict(os.environ, PYTHONPATH=os.environ.get("VERIF_REPO", "/repo"), PYTHONHASHSEED=str(len(tag) % 7), PYTHONDONTWRITEBYTECODE="1")
    p = subprocess.run([PY, WORKER, pf], env=env, capture_output=True, text=True, timeout=1800)
    lines = [json.loads(l) for l in p.stdout.splitlines() if l.startswith("{")]
    if len(lines) != len(steps):
        raise RuntimeError("sigprog worker failed (%d of %d steps): %s" % (len(lines), len(steps), p.stderr[-600:]))
    return lines


def judge(c, own, steps, exp, lines, phase, done=None):
    """own = 'C02' (values) or 'C06' (hits, check_call_in_cache, acceptance).  `done`: classes completed in an earlier phase."""
    done = set(done or ())
    for st, e, l in zip(steps, exp, lines):
        c.evaluations += 1
        key = {"function": st["f"], "fkind": st.get("kind"), "args": st["args"], "kwargs": st["kwargs"], "mode": st["mode"], "role": e["role"], "phase": phase,
               "ignore": st.get("ignore"), "frozen": st.get("frozen"), "store": st.get("store"), "session": "fresh_process" if phase.endswith("fresh_process") else "same_process"}
        cls = e["cls"]
        if "exc" in l:
            if own == "C06" and "plain_exc" not in l:
                c.violation(dict(key, kind="rejected"), "C06: the cached wrapper raises %s(%s) for a call the plain function accepts: %s(*%s, **%s)" %
                            (l["exc"], l.get("msg"), st["f"], st["args"], st["kwargs"]), {})
            continue
        if st["mode"] == "check":
            want = cls in done
            if own == "C06" and l["value"] != repr(want):
                c.violation(dict(key, kind="check_call_in_cache"), "C06: check_call_in_cache answers %s but the next identical call %s execute the function: %s(*%s, **%s)" %
                            (l["value"], "would not" if want else "would", st["f"], st["args"], st["kwargs"]), {})
            continue
        if own == "C02" and l["value"] != l.get("plain"):
            c.violation(dict(key, kind="wrong_value"), "C02: cached call returns %s but the function returns %s for %s(*%s, **%s) [%s]" %
                        (l["value"][:200], str(l.get("plain"))[:200], st["f"], st["args"], st["kwargs"], e["role"]), {})
        if own == "C06" and cls in done and l["executed"] != 0 and e["role"] != "force":
            c.violation(dict(key, kind="executed_although_cached"), "C06: an equivalent form of a completed call executed the function again: %s(*%s, **%s) [%s]" %
                        (st["f"], st["args"], st["kwargs"], e["role"]), {})
        done.add(cls)
        c.nontrivial.add((st["f"], st["args"], st["kwargs"], st["mode"], tuple(st.get("ignore") or ())))
    return done


def run(c, own):
    maxn = 3
    states = argbind.enumerate_states(c, maxn)
    rng = random.Random(c.seed)
    base = common.scratch(own.lower())
    try:
        plans = [("functions", ("function",), None if not c.quick else 160, 5 if c.quick else 8, False),
                 ("mixed_kinds", ("method", "async", "function"), 60 if c.quick else 300, 4, False),
                 ("compressed", ("function",), 40 if c.quick else 200, 4, True)]
        if not c.quick:
            states4 = argbind.enumerate_states(c, 4)
            plans.append(("four_params", ("function",), 500, 4, False))
        for pname, kinds, max_sigs, per_sig, compress in plans:
            sts = states4 if pname == "four_params" else states
            src, steps, exp = build_program(sts, rng, per_sig=per_sig, kinds=kinds, max_sigs=max_sigs)
            if compress:
                for s in steps: s["compress"] = True
            pb = os.path.join(base, pname); os.makedirs(pb)
            lines = run_program(pb, "phase1", src, steps)
            done = judge(c, own, steps, exp, lines, pname + "/same_process")
            # a fresh process sharing the directory: every completed call is due to hit in any equivalent form
            steps2 = [s for s, e in zip(steps, exp) if e["role"] in ("equiv", "check_after", "call")]
            exp2 = [dict(e, role="fresh_" + e["role"]) for e in exp if e["role"] in ("equiv", "check_after", "call")]
            lines2 = run_program(pb, "phase2_", src, steps2)
            judge(c, own, steps2, exp2, lines2, pname + "/fresh_process", done=done)
            c.extra.setdefault("steps", {})[pname] = len(steps) + len(steps2)
            for s, l in list(zip(steps, lines))[:: max(1, len(steps) // 2)][:2]:
                c.sample({"plan": pname, "step": s, "result": l})
    finally:
        shutil.rmtree(base, ignore_errors=True)
    c.traces_validated = c.evaluations
    c.rule = ("programs generated from the TLC enumeration of ArgBinding.tla (all signatures with <= 3 parameters; 4 in the thorough tier): per signature "
              "several call shapes, every other shape with the same binding image (equivalent form), rebuilt dict/set arguments, call_and_shelve().get(), "
              "one-parameter perturbations to near-colliding typed values (1/1.0/True/'1', 'a'/b'a', (1,)/[1], 0.0/-0.0, None/0/False, dict/list of pairs, "
              "set/frozenset/list), ignore lists; functions, bound methods, async functions; with and without compression; same process and a fresh process. "
              "Oracle: the undecorated function; distinct = (function, args, kwargs, mode, ignore)")
    c.assumptions += ["functions are pure functions of their arguments (generated)", "ArgBinding.tla (cross-checked against CPython in C07) defines which call forms are equivalent"]
