import os, sys, json, subprocess, shutil, random, io, zlib
from concurrent.futures import ThreadPoolExecutor
sys.path.insert(0, os.path.dirname(os.path.dirname(os.path.abspath(__file__))))
from checks import common
from engine import tlc
from harness import fsctl

WORKER = os.path.join(common.VERIF, "harness", "load_worker.py")
COMPRESSORS = [None, ("zlib", 3), ("gzip", 3), ("bz2", 3), ("lzma", 3), ("xz", 3)]
OBJECTS = ["{'a': list(range(50)), 'b': 'x' * 100, 'c': (1, 2.5, None, b'bytes')}", "[('k%d' % i, i * 1.5) for i in range(300)]", "'short'", "b'\\x00' * 9000"]
# text that is not ASCII: a cut may fall inside a multi-byte character (read outside a pickle frame: protocol 3, or >= 64 KiB)
BRACES = {"k": "{}", "{0}": [1, "{name}"]}
OBJECTS_P = [("['cach\\u00e9 \\u2713 \\U0001F600', '\\u2713' * 40]", 3), ("'\\u2713\\u00e9' * 30000", None)]


def model(c):
    """ZlibFill.tla: the refill loop terminates for every shape of raw file; with the repair switched off it does not."""
    n = 0
    for blocks in (1, 2, 3):
        for cut in range(0, blocks + 1):
            for trailing in (0, 1, 2):
                if cut < blocks and trailing: continue
                path = os.path.join(common.VERIF, "out", "cfg", "ZF_%d_%d_%d.cfg" % (blocks, cut, trailing))
                tlc.write_cfg(path, constants=dict(Blocks=blocks, Cut=cut, Trailing=trailing, Fixed=True), spec="Spec", properties=["Terminates"])
                c.model_check("ZlibFill[blocks=%d,cut=%d,trailing=%d]" % (blocks, cut, trailing), "ZlibFill", path, workers=1, timeout=300); n += 1
    path = os.path.join(common.VERIF, "out", "cfg", "ZF_D2.cfg")
    tlc.write_cfg(path, constants=dict(Blocks=2, Cut=2, Trailing=1, Fixed=False), spec="Spec", properties=["Terminates"])
    r = c.model_check("ZlibFill[D2_off]", "ZlibFill", path, must_hold=False, workers=1, timeout=300)
    if r.ok: raise tlc.TLCError("ZlibFill lost its sensitivity to D2 (trailing bytes with the repair off must not terminate)")
    c.extra["model_sensitivity"] = ["D2_off -> %s" % (r.violated,)]
    c.extra["model_shapes"] = n


def tuned_payload(rng, comp, residue, minblocks):
    """an incompressible bytes object whose dump with `comp` has compressed length = residue (mod 8192), > minblocks * 8192"""
    import joblib
    n = minblocks * 8192 + 100
    data = bytes(rng.getrandbits(8) for _ in range(n + 9000))
    for _ in range(60):
        buf = io.BytesIO(); joblib.dump(data[:n], buf, compress=comp); ln = len(buf.getvalue())
        d = (residue - ln) % 8192
        if d == 0: return data[:n], ln
        n += d if d < 4000 else d - 8192 + 8192
    return None, None


def run_job(args):
    base, k, cases = args
    jf = os.path.join(base, "job%d.json" % k)
    results = []; start = 0
    while start < len(cases):
        json.dump({"cases": cases, "start": start, "watchdog": 10}, open(jf, "w"))
        try:
            subprocess.run(["/venv/bin/python", WORKER, jf], env=dict(os.environ, PYTHONPATH=os.environ.get("VERIF_REPO", "/repo"), PYTHONDONTWRITEBYTECODE="1"), capture_output=True, text=True, timeout=600)
        except subprocess.TimeoutExpired:
            pass
        part = json.load(open(jf + ".out")) if os.path.exists(jf + ".out") else []
        if os.path.exists(jf + ".out"): os.unlink(jf + ".out")
        if not part:
            results.append({"i": start, "outcome": "HANG", "t": -1}); start += 1; continue
        results += part; start = part[-1]["i"] + 1
    return results


def body(c):
    c.spec_cases_replayed = True
    import joblib
    model(c)
    rng = random.Random(c.seed)
    base = common.scratch("c14")
    files = []      # (path, orig expr, compressor name, length)
    objs = [(o, None) for o in (OBJECTS if not c.quick else OBJECTS[:3])] + OBJECTS_P
    for oi, (oexpr, proto) in enumerate(objs):
        obj = eval(oexpr)
        for comp in COMPRESSORS:
            p = os.path.join(base, "o%d_%s.pkl" % (oi, comp[0] if comp else "raw"))
            joblib.dump(obj, p, compress=comp if comp else 0, protocol=proto)
            files.append((p, oexpr, comp[0] if comp else "raw", os.path.getsize(p)))
    # files whose compressed length sits just after a block boundary (the last raw block holds only the stream trailer)
    tuned = []
    for comp in (("zlib", 3), ("gzip", 3)):
        for residue in ((1, 4, 8) if c.quick else (1, 2, 3, 4, 6, 8, 8191, 0)):
            data, ln = tuned_payload(rng, comp, residue, 1 if c.quick else 3)
            if data is None: continue
            p = os.path.join(base, "t_%s_%d.pkl" % (comp[0], residue)); joblib.dump(data, p, compress=comp)
            expr = "open(%r, 'rb').read()" % (p + ".orig"); open(p + ".orig", "wb").write(data)
            tuned.append((p, expr, comp[0], os.path.getsize(p)))
    c.extra["tuned_files"] = [(os.path.basename(p), ln, ln % 8192) for p, _, _, ln in tuned]
    second = {name: open(p, "rb").read().hex() for p, _, name, _ in files[:len(COMPRESSORS)]}
    extras = ["00", "6a756e6b" * 3, "00" * 9000]
    cases = []
    for p, oexpr, name, ln in files + tuned:
        if ln <= 700 and not c.quick: cuts = list(range(0, ln))
        elif ln <= 700: cuts = sorted(set(list(range(0, 40)) + list(range(40, ln, 7)) + list(range(max(0, ln - 20), ln))))
        else: cuts = sorted(({0, 1, 2, 3, 5, 10, 11, 12, 100, ln // 2, 8191, 8192, 8193, ln - 8193, ln - 8192, ln - 9, ln - 8, ln - 5, ln - 4, ln - 3, ln - 2, ln - 1}
                           | set(range(ln // 3, ln // 3 + 6)) | set(range(ln // 2, ln // 2 + 6)) | set(range(70000, 70006))) & set(range(0, ln)))
        for cut in cuts:
            cases.append({"file": p, "cut": cut, "orig": oexpr, "kind": "truncated", "comp": name})
        for ex in extras + [second["zlib"][:4000], second["raw"][:2000]]:
            cases.append({"file": p, "cut": None, "extra_hex": ex, "orig": oexpr, "kind": "trailing", "comp": name})
    nw = 14
    jobs = [(base, k, cases[k::nw]) for k in range(nw)]
    with ThreadPoolExecutor(max_workers=nw) as ex:
        results = list(ex.map(run_job, jobs))
    stats = {}
    for (b, k, cs), res in zip(jobs, results):
        for r in res:
            case = cs[r["i"]]; c.evaluations += 1
            stats[r["outcome"]] = stats.get(r["outcome"], 0) + 1
            key = {"clause": "load", "compressor": case["comp"], "damage": case["kind"], "file": os.path.basename(case["file"]), "cut": case.get("cut"), "extra_bytes": len(case.get("extra_hex", "")) // 2}
            c.nontrivial.add(json.dumps(key))
            if r["outcome"] in ("HANG", "RUNAWAY", "DIFFERENT"):
                c.violation(dict(key, outcome=r["outcome"]), "C14: joblib.load of a %s %s file (%s, cut=%s, %d extra bytes): %s %s" %
                            (case["kind"], case["comp"], key["file"], case.get("cut"), key["extra_bytes"], r["outcome"], r.get("got", "")), {})
    c.extra["load_outcomes"] = stats
    # Memory: a damaged cache entry makes the cached function recompute (never fail, never return garbage)
    mstats = {"ok": 0}
    for compress in (False, True, ["xz", 3], ["gzip", 3], ["bz2", 3], ["lzma", 3]):
        for val in ((3, 7) if c.quick else (3, 7, 11, 13)) if compress in (False, True) else ((3,) if c.quick else (3, 7)):
            mb = os.path.join(base, "mem_%s_%d" % (compress if not isinstance(compress, list) else compress[0], val)); tdir = os.path.join(mb, "template"); os.makedirs(tdir)
            # every second value: an argument whose repr is full of braces (the message about the unreadable entry quotes the call), and
            # warnings turned into errors in the process that finds the damaged entry
            call = ["call", val] + ([BRACES] if val == 7 else [])
            expect = ["v1", val, BRACES if val == 7 else 0]
            spec = dict(moddir=os.path.join(mb, "mod"), ver=1, log=os.path.join(mb, "log"), opts={"compress": compress}, ops=[call])
            fsctl.run_plain(tdir, spec)
            spec = dict(spec, opts={"compress": compress, "warn_error": val == 7})
            outs = [os.path.join(dp, "output.pkl") for dp, dn, fn in os.walk(tdir) if "output.pkl" in fn]
            data = open(outs[0], "rb").read(); rel = os.path.relpath(outs[0], tdir)
            damages = [("cut", k) for k in range(0, len(data))] + [("extra", b"\0"), ("extra", b"junkjunk"), ("extra", data)]

            def one(dm, mb=mb, tdir=tdir, rel=rel, data=data, spec=spec, val=val, expect=expect):
                d = os.path.join(mb, "c_%s_%s" % (dm[0], dm[1] if dm[0] == "cut" else len(dm[1]))); shutil.copytree(tdir, d)
                with open(os.path.join(d, rel), "wb") as h: h.write(data[:dm[1]] if dm[0] == "cut" else data + dm[1])
                rc, lines, err = fsctl.run_plain(d, spec); shutil.rmtree(d, ignore_errors=True)
                return dm, rc, lines, err, expect
            with ThreadPoolExecutor(max_workers=14) as ex:
                for dm, rc, lines, err, expect in ex.map(one, damages):
                    c.evaluations += 1
                    key = {"clause": "memory", "compress": compress, "damage": dm[0], "at": dm[1] if dm[0] == "cut" else len(dm[1]), "value": val, "warnings_as_errors": val == 7}
                    c.nontrivial.add(json.dumps(key))
                    if rc != 0 or len(lines) != 1 or "exc" in lines[0] or lines[0].get("value") != expect:
                        c.violation(key, "C14: cached call on a damaged entry (output.pkl %s at %s, compress=%s): %s" % (dm[0], key["at"], compress, lines or err[-200:]), {})
                    else: mstats["ok"] += 1
    c.extra["memory_recompute_ok"] = mstats["ok"]
    shutil.rmtree(base, ignore_errors=True)
    for cs in cases[:: max(1, len(cases) // 3)][:3]: c.sample({k: v for k, v in cs.items() if k != "extra_hex"})
    c.rule = ("every strict prefix (all lengths for files <= 700 bytes in the thorough tier, boundary-biased otherwise) and five kinds of trailing bytes "
              "(1 byte, junk, 9000 zero bytes, a second zlib stream, a second uncompressed pickle) of joblib files written with no compressor, zlib, gzip, bz2, lzma, xz, "
              "including files tuned so that the last 8 KiB raw block holds only the stream trailer; joblib.load runs under a 10 s watchdog and a 3 GiB address-space "
              "limit; plus every truncation length of a cached output.pkl (plain and compressed) followed by a cached call; distinct = (file, damage)")
    c.assumptions += ["watchdog 10 s per load (normal loads take milliseconds); MemoryError under a 3 GiB limit on files of a few KiB counts as runaway"]


common.main("C14", "fault_enumeration", body)
