"""Shared machinery of the Parallel family (C01 C04 C09 C16, bound of C15): explore the real code with the
L1/L2/L3 drivers, validate every recorded trace against specs/ParallelAbs.tla with TLC, attribute rejections
to the property named by the blocking clause."""
import os, sys, json, random, time, collections, re
from concurrent.futures import ProcessPoolExecutor
VERIF = os.path.dirname(os.path.dirname(os.path.abspath(__file__)))
if VERIF not in sys.path: sys.path.insert(0, VERIF)
from engine import tlc


def _cfg_id(cfg):
    return json.dumps(cfg, sort_keys=True, default=list)


def _explore_one(args):
    """worker: explore one scenario; returns list of (events, schedule, notes)"""
    cfg, how, amount, seed = args
    sys.path.insert(0, VERIF)
    from harness import pl1
    out = []

    def on_run(r, sched):
        out.append((r.events, list(sched), r.notes, pl1.protocol_trace(r.blog)))
    if how == "dfs":
        runs, trunc = pl1.dfs(cfg, limit=amount, on_run=on_run)
        if trunc:
            rng = random.Random(seed)
            pl1.random_runs(cfg, max(50, amount // 4), rng, on_run=on_run, bias=0.5)
    elif how == "sched":
        for s in amount:
            r = pl1.run_schedule(cfg, s); on_run(r, s)
    elif how in ("lifo", "fifo"):
        # directed schedules: at every poll the newest (oldest) ready batch completes, everything else takes its default - the
        # batches at the other end stay pending for the whole run
        import warnings
        def chooser(kind, n, info): return (n - 1 if how == "lifo" else 0) if kind == "poll" else 0
        with warnings.catch_warnings():
            warnings.simplefilter("ignore")
            r = pl1.Run(cfg, chooser).execute()
        on_run(r, [c for _, c, _ in r.choices])
    else:
        rng = random.Random(seed)
        for bias in (0.15, 0.5, 0.85):
            pl1.random_runs(cfg, max(1, amount // 3), rng, on_run=on_run, bias=bias)
    return cfg, out


def explore(scenarios, seed=0, workers=8):
    """scenarios: list of (cfg, 'dfs'|'random'|'sched', amount).  Returns (traces, meta)."""
    jobs = [(cfg, how, amount, seed + k) for k, (cfg, how, amount) in enumerate(scenarios)]
    traces = []; meta = []
    with ProcessPoolExecutor(max_workers=workers) as ex:
        for cfg, out in ex.map(_explore_one, jobs, chunksize=1):
            for events, sched, notes, blog in out:
                traces.append(events); meta.append({"cfg": cfg, "sched": sched, "notes": notes, "driver": "L1", "blog": blog})
    return traces, meta


FUNCTIONAL_BREACH = ("submit outside a call", "start_call without a pool or inside a call")


def protocol_models(c):
    """BackendProtocol model-checked, and its two sensitivity runs (a guard of parallel.py switched off must breach the protocol)"""
    base = dict(MaxCalls=3, MaxSubmits=2, GuardStop=True, AbortOnce=True)
    cfgp = lambda n: os.path.join(VERIF, "out", "cfg", n + ".cfg")
    props = dict(invariants=["TypeOK", "Protocol", "CleanWhenIdle", "Reusable", "NoCallInsideCall"], properties=["CleanAtMarkers", "Quiesces"])
    c.model_check("BackendProtocol", "BackendProtocol", tlc.write_cfg(cfgp("BackendProtocol_mc"), spec="Spec", constants=base, **props), workers=4, timeout=600)
    sens = []
    for sw in ("GuardStop", "AbortOnce"):
        r = c.model_check("BackendProtocol[%s off]" % sw, "BackendProtocol",
                          tlc.write_cfg(cfgp("BackendProtocol_%s_off" % sw), spec="Spec", constants=dict(base, **{sw: False}), invariants=["Protocol"]),
                          must_hold=False, workers=4, timeout=600)
        if r.ok:
            raise tlc.TLCError("model lost its sensitivity: BackendProtocol with %s = FALSE no longer breaches the protocol" % sw)
        sens.append("%s off -> %s %s" % (sw, r.violated[0], r.violated[1]))
    c.extra["protocol_model_sensitivity"] = sens


def protocol(c, meta, own):
    """backend life-cycle traces of the L1 runs: judged by BackendMonitor (abstract), compared with BackendProtocol (design)"""
    uniq = {}
    for m in meta:
        b = m.get("blog")
        if not b or any(e["ev"] == "End" and e["kind"] == "hang" for e in b): continue
        if m["cfg"].get("nj") == 1: continue        # the in-caller path configures the backend and never uses it: no life cycle to judge
        uniq.setdefault(json.dumps(b), m)
    keys = list(uniq); T = [json.loads(k) for k in keys]
    if not T: return
    r, rej = tlc.validate_traces("BackendMonitorTrace", "BackendMonitorTrace.cfg", T)
    c.add_tlc("trace-validation backend-monitor[%d]" % len(T), r)
    bad = set(rej); shown0 = 0
    for ti, (line, why) in rej.items():
        mt = uniq[keys[ti]]; tr = T[ti]
        closed = any(e["ev"] == "End" and e["kind"] == "closed" for e in tr[:line + 1]) or (0 < line <= len(tr) and tr[line - 1].get("kind") == "closed")
        owned = why in FUNCTIONAL_BREACH or (own == "C16" and closed and "left" in why)
        if owned:
            c.violation({"clause": "backend-protocol: " + why, "cfg": _short(mt["cfg"]), "sched": mt["sched"]},
                        "%s: the backend is driven out of its life-cycle protocol at event %d: %s" % (own, line, why),
                        {"backend_calls": tr[:line + 1]})
        else:
            c.drift += 1; shown0 += 1
            if shown0 <= 3:
                print("DRIFT property=%s backend life-cycle: %s at event %d of %s" % (own, why, line, " ".join(e["ev"] + (":" + e["kind"] if "kind" in e else "") for e in tr[:line])[-300:]))
    r, rej = tlc.validate_traces("BackendProtocolTrace", "BackendProtocolTrace.cfg", T)
    c.add_tlc("trace-validation backend-protocol[%d]" % len(T), r)
    shown = 0
    for ti, (line, why) in rej.items():
        bad.add(ti); c.drift += 1
        if shown < 3:
            shown += 1
            print("DRIFT property=%s backend life-cycle trace is not a behaviour of BackendProtocol, stuck at event %d: %s" % (own, line, " ".join(e["ev"] for e in T[ti][:line + 1])[-300:]))
    c.traces_validated += len(T) - len(bad)
    c.extra["backend_protocol_traces"] = len(T); c.extra["backend_protocol_rejected"] = len(bad)


def _l2_one(args):
    cfg, seeds, pswitch = args
    sys.path.insert(0, VERIF)
    from harness import pl2
    out = []
    for seed in seeds:
        r = pl2.random_run(cfg, seed, pswitch)
        out.append((r["events"], r["choices"], r["notes"], r["status"], seed))
    return cfg, out


def explore_l2(scenarios, seed=0, workers=12):
    """scenarios: list of (cfg, runs).  Random deterministic schedules (seeded), real threads."""
    jobs = []
    for k, (cfg, runs) in enumerate(scenarios):
        per = max(1, runs // 4)
        for j, ps in enumerate((0.2, 0.5, 0.8, 0.5)):
            base = seed * 100003 + k * 1009 + j * 100000
            jobs.append((cfg, list(range(base, base + per)), ps))
    traces = []; meta = []
    with ProcessPoolExecutor(max_workers=workers) as ex:
        for cfg, out in ex.map(_l2_one, jobs, chunksize=1):
            for events, choices, notes, status, sd in out:
                traces.append(events); meta.append({"cfg": cfg, "sched": choices, "notes": notes, "driver": "L2", "seed": sd, "status": status})
    return traces, meta


def _l3_one(args):
    import subprocess, shutil, tempfile
    base, k, runs = args
    d = os.path.join(base, "l3_%d" % k); os.makedirs(d)
    jf = os.path.join(d, "job.json"); json.dump({"dir": os.path.join(d, "w"), "runs": runs}, open(jf, "w"))
    env = dict(os.environ, PYTHONPATH=os.environ.get("VERIF_REPO", "/repo") + ":" + VERIF, PYTHONDONTWRITEBYTECODE="1", JOBLIB_TEMP_FOLDER=d)
    with open(os.path.join(d, "log"), "w") as lf:
        try: subprocess.run(["/venv/bin/python", os.path.join(VERIF, "harness", "pl3.py"), jf], env=env, stdout=lf, stderr=lf, stdin=subprocess.DEVNULL, timeout=900)
        except subprocess.TimeoutExpired: pass
    out = json.load(open(jf + ".out")) if os.path.exists(jf + ".out") else [{"events": [], "notes": ["L3 driver did not finish: " + open(os.path.join(d, "log")).read()[-300:]]} for _ in runs]
    subprocess.run(["pkill", "-9", "-f", d + "/"]); shutil.rmtree(d, ignore_errors=True)
    return out


def explore_l3(runs, base, groups=6):
    """runs: list of pl3 configurations (built-in backends, gate-steered).  Several runs share one driver process (executor reuse)."""
    jobs = [(base, k, runs[k::groups]) for k in range(groups) if runs[k::groups]]
    traces = []; meta = []
    with ProcessPoolExecutor(max_workers=len(jobs)) as ex:
        for (b, k, rs), out in zip(jobs, ex.map(_l3_one, jobs)):
            for cfg, o in zip(rs, out):
                if o.get("skipped"): continue
                if not o["events"]:
                    raise RuntimeError("L3 run produced no trace: %s %s" % (cfg, o["notes"]))
                traces.append(o["events"]); meta.append({"cfg": cfg, "sched": cfg.get("order") if isinstance(cfg.get("order"), list) else [1], "notes": o["notes"], "driver": "L3"})
    return traces, meta


GEN_ONLY_C16 = {"C01.OutOfOrder", "C01.ResultYieldedTwice", "C01.ResultsLost", "C01.ResultOfUnfinishedTask"}
LEFTOVER = {"C04.CarryOverFromEarlierCall", "C04.ResultOfEarlierCall"}


def also_violates(why, trace, line):
    """A clause of ParallelAbs is named after the property it belongs to first; the same broken clause can also contradict the
    statement of another property, depending on what happened before in the execution (which call, which mode, how the
    earlier calls ended).  Returns the set of those other properties.  Only consulted for executions TLC has rejected."""
    pre = trace[:max(0, line)]
    calls = [e for e in pre if e.get("ev") == "CallStart"]
    ends = [e.get("kind") for e in pre if e.get("ev") == "End"]
    mode = calls[-1].get("mode") if calls else None
    gen = mode in ("gen", "unord")
    prior_failed = any(k in ("raised_task", "raised_iter", "timeout") for k in ends)
    abandoned = any(k == "closed" for k in ends) or any(e.get("ev") in ("Close", "Overlap") for e in pre)
    healthy = not prior_failed and not abandoned and not any(e.get("ev") in ("PullRaise",) or (e.get("ev") == "TEnd" and not e.get("ok", True)) for e in pre)
    out = set()
    if why.startswith("C01."):
        if gen and why in GEN_ONLY_C16: out.add("C16")          # C16: "in the promised order ... each exactly once"
        if prior_failed: out.add("C04")                          # C04: the next call "returns exactly the results of the new tasks"
    if why in LEFTOVER:
        if abandoned: out.add("C16")                             # C16: reusable after close/drop, "instead of mixing the two runs"
        if healthy or why == "C04.ResultOfEarlierCall": out.add("C01")   # C01: a call yields exactly the values of ITS tasks
    if why in ("C04.UnexpectedOutcome", "C04.NoTermination"):
        if gen and (abandoned or why == "C04.NoTermination"): out.add("C16")   # (a generator that never ends keeps the object "already running")                     # C16: "terminates cleanly and leaves the Parallel object reusable"
        if healthy: out.add("C01")
    if why == "C04.SpuriousTimeout" and gen: out.add("C16")                  # C16: each result is delivered (a timeout nobody reached loses the rest)
    if why == "C16.SpuriousRuntimeError" and prior_failed: out.add("C04")    # C04: "can be called again"
    if why == "C09.DispatchAfterStop" and abandoned and not prior_failed: out.add("C16")   # C16: closing "stops further dispatch"
    return out


def validate(c, traces, meta, own, chunk=6000, label="L1"):
    """TLC-validate traces against ParallelAbs; record violations of property `own` (prefix of the clause)."""
    other = collections.Counter()
    for k in range(0, len(traces), chunk):
        part = traces[k:k + chunk]
        r, rej = tlc.validate_traces("ParallelTrace", "ParallelTrace.cfg", part)
        c.add_tlc("trace-validation %s[%d:%d]" % (label, k, k + len(part)), r)
        m = re.search(r'<<\s*"D9FLAGS",\s*\{([^}]*)\}', r.output)
        flagged = {int(x) - 1 for x in re.findall(r"\d+", m.group(1))} if m else set()
        for ti in flagged:
            mt = meta[k + ti]
            if own == "C09":
                c.violation({"clause": "C09.LookaheadDuringStart", "cfg": _short(mt["cfg"]), "sched": mt["sched"]},
                            "look-ahead exceeds the bound during the caller's initial dispatch loop (D9)",
                            {"trace": part[ti][:80]})
        for ti, (line, why) in rej.items():
            mt = meta[k + ti]
            prop = why.split(".")[0]
            if prop == own or own in also_violates(why, part[ti], line):
                c.violation({"clause": why, "driver": mt.get("driver", label), "cfg": _short(mt["cfg"]), "sched": mt["sched"]},
                            "%s: real execution rejected by ParallelAbs at event %d: clause %s" % (own, line, why),
                            {"event": part[ti][line - 1] if 0 < line <= len(part[ti]) else None,
                             "trace_prefix": part[ti][max(0, line - 40):line], "notes": mt.get("notes")})
            else:
                other[why] += 1
        c.traces_validated += len(part) - len(rej)
    if other:
        c.extra.setdefault("rejections_attributed_to_other_properties", {}).update(other)
        for why, n in other.items():
            if why.startswith("harness."):
                c.drift += n
    return other


def validator_sensitivity(c, traces):
    """Binding demonstration: recorded executions of the real code, corrupted in one place each, must be REJECTED by the trace
    validation (and the untouched recording accepted) - otherwise the validator constrains nothing and the check is void."""
    import copy
    base = None
    for t in traces:
        ys = [k for k, e in enumerate(t) if e.get("ev") == "Yield"]
        subs = [k for k, e in enumerate(t) if e.get("ev") == "Submit"]
        ends = [e for e in t if e.get("ev") == "End"]
        cs = [e for e in t if e.get("ev") == "CallStart"]
        if len(cs) == 1 and cs[0].get("mode") == "list" and len(ys) >= 3 and len(subs) >= 2 and ends and ends[-1].get("kind") == "returned" and cs[0].get("nj", 1) > 1:
            base = t; break
    if base is None: raise tlc.TLCError("validator sensitivity: no plain recorded execution to corrupt")
    ys = [k for k, e in enumerate(base) if e.get("ev") == "Yield"]
    variants = [("untouched", base)]
    v = copy.deepcopy(base); v[ys[0]], v[ys[1]] = v[ys[1]], v[ys[0]]; variants.append(("two results swapped", v))
    k = [k for k, e in enumerate(base) if e.get("ev") == "Submit"][-1]
    v = copy.deepcopy(base); del v[k]; variants.append(("one Submit removed", v))
    v = copy.deepcopy(base); del v[ys[-1]]; variants.append(("last result removed", v))
    k = [k for k, e in enumerate(base) if e.get("ev") == "TStart"][0]
    v = copy.deepcopy(base); v.insert(k + 1, dict(base[k])); variants.append(("one task started twice", v))
    v = copy.deepcopy(base)
    for e in v:
        if e.get("ev") == "End": e["kind"] = "raised_task"; e["i"] = 0
    variants.append(("outcome changed to a task error", v))
    r, rej = tlc.validate_traces("ParallelTrace", "ParallelTrace.cfg", [t for _, t in variants])
    c.add_tlc("trace-validation sensitivity", r)
    out = {}
    for k, (name, _) in enumerate(variants):
        out[name] = rej[k][1] if k in rej else "accepted"
    if out["untouched"] != "accepted": raise tlc.TLCError("validator sensitivity: the untouched recording is rejected (%s)" % out["untouched"])
    bad = [n for n, v in out.items() if n != "untouched" and v == "accepted"]
    if bad: raise tlc.TLCError("trace validation lost its sensitivity: corrupted recordings accepted: %s" % bad)
    c.extra["validator_sensitivity"] = out


def _short(cfg):
    return {k: (list(v) if isinstance(v, (set, tuple)) else v) for k, v in cfg.items() if k != "gap"}


def account(c, traces, meta):
    c.evaluations += len(traces)
    for t, m in zip(traces, meta):
        if any(m["sched"]):
            c.nontrivial.add((_cfg_id(m["cfg"]), tuple(m["sched"])))
    for t, m in list(zip(traces, meta))[:: max(1, len(traces) // 3)][:3]:
        c.sample({"cfg": _short(m["cfg"]), "schedule": m["sched"], "events": t[:40]})


# ---------------------------------------------------------------------------------------------
# design model <-> code

MODE_TLA = {"list": "list", "generator": "gen", "generator_unordered": "unordered"}


def model_constants(cfg, **over):
    """ParallelDesign constants for an L1 configuration (same n for all calls, rc=True, no inline/timeout)."""
    from harness import pl1
    calls = cfg["calls"]; n = calls[0]["n"]
    assert all(c["n"] == n for c in calls) and cfg["rc"] and not cfg["inline"] and cfg["timeout"] is None and not cfg["managed"]
    fc = {k + 1 for k, c in enumerate(calls) if c.get("fail") or c.get("iterfail") is not None}
    fails = set(); itf = n + 1
    for c in calls:
        if c.get("fail"): fails = set(c["fail"])
        if c.get("iterfail") is not None: itf = c["iterfail"]
    from checks import pmodel
    k = dict(pmodel.BASE)
    k.update(N=n, NJ=cfg["nj"], PRE=pl1.pre_tasks(cfg["pre"], cfg["nj"]),
             BSizes=set(cfg["bsizes"]) if cfg["bs"] == "auto" else {cfg["bs"]}, Fail=fails, IterFailAt=itf,
             FailCalls=fc or {99}, Mode=MODE_TLA[cfg["mode"]], Calls=len(calls))
    k.update(over)
    return k


def _dtrace_one(args):
    cfg, limit, seed = args
    sys.path.insert(0, VERIF)
    from harness import pl1
    out = []
    runs, trunc = pl1.dfs(cfg, limit=limit, on_run=lambda r, s: out.append((r.dtrace, list(s))))
    if trunc:
        rng = random.Random(seed)
        pl1.random_runs(cfg, limit // 2, rng, on_run=lambda r, s: out.append((r.dtrace, list(s))))
    return out


def design_conformance(c, scenarios, seed=0):
    """Code -> design spec: L1 executions recorded as design traces must be behaviours of ParallelDesign.
    A rejection is DRIFT (reported, counted), not a violation."""
    jobs = [(cfg, limit, seed + k) for k, (cfg, limit) in enumerate(scenarios)]
    with ProcessPoolExecutor(max_workers=min(8, len(jobs))) as ex:
        results = list(ex.map(_dtrace_one, jobs))
    total = 0; drift = 0
    for k, ((cfg, limit), out) in enumerate(zip(scenarios, results)):
        path = os.path.join(VERIF, "out", "cfg", "PDT_%s_%d.cfg" % (c.pid, k))
        tlc.write_cfg(path, constants=model_constants(cfg), spec="TSpec", constraint="Progress", postcondition="Accepted")
        traces = [o[0] for o in out]
        r, rej = tlc.validate_traces("ParallelDesignTrace", path, traces)
        c.add_tlc("design-conformance[%d]" % k, r)
        total += len(traces); drift += len(rej)
        for ti, (line, why) in list(rej.items())[:3]:
            print("DRIFT property=%s design model rejects execution cfg=%s schedule=%s at event %d %s" %
                  (c.pid, _short(cfg), out[ti][1], line, traces[ti][line - 1] if 0 < line <= len(traces[ti]) else ""))
    c.extra["design_conformance_traces"] = total
    c.extra["design_conformance_rejected"] = drift
    c.drift += drift
    c.traces_validated += total - drift
    return drift


_STATE = re.compile(r"^\\\* <(\w+)(?:\((\d+)\))? line .*?>\nSTATE_\d+ ==\s*\n(.*?)(?=^\\\* <|\Z)", re.S | re.M)


def parse_sim_trace(text):
    """-> list of (action name, parameter or None, state text)"""
    return [(m.group(1), int(m.group(2)) if m.group(2) else None, m.group(3)) for m in _STATE.finditer(text)]


def _field(state, name):
    m = re.search(r"^/\\ %s = (.*?)(?=^/\\ |\Z)" % name, state, re.S | re.M)
    return m.group(1).strip() if m else None


def schedule_tokens(trace):
    """Project a ParallelDesign behaviour onto decisions of the L1 driver."""
    toks = []
    for act, par, st in trace:
        if act in ("CallStart", "CallStart2", "D1", "DLLocked", "RPop"):
            toks.append(("L",))
        elif act == "CbRegister":
            Bs = _field(st, "B") or ""
            los = [int(x) for x in re.findall(r"lo \|-> (\d+)", Bs)]
            cs = [int(x) for x in re.findall(r"\bc \|-> (\d+)", Bs)]
            toks.append(("C", cs[par - 1] - 1, los[par - 1]))
        elif act == "ConsumerNext":
            toks.append(("N",))
        elif act == "ConsumerClose":
            toks.append(("X",))
    return toks


def _guided_one(args):
    cfg, toklists = args
    sys.path.insert(0, VERIF)
    from harness import pl1
    import warnings
    out = []
    for toks in toklists:
        holder = {}

        class Guide:
            def __init__(g, toks): g.toks = list(toks); g.pos = 0
            def _skip(g):
                while g.pos < len(g.toks) and g.toks[g.pos][0] in ("N", "X", "_"):
                    g.pos += 1
            def observe(g, kind):
                # a scheduling point without alternatives
                g._skip()
                if kind == "lock" and g.pos < len(g.toks) and g.toks[g.pos][0] == "L":
                    g.pos += 1
                elif kind == "poll" and g.pos < len(g.toks) and g.toks[g.pos][0] == "C":
                    g.pos += 1
            def __call__(g, kind, n, info):
                R = holder["r"]
                if kind in ("lock", "poll"):
                    ready = R.be.completable()
                    g._skip()
                    if g.pos < len(g.toks) and g.toks[g.pos][0] == "C":
                        _, cc, lo = g.toks[g.pos]
                        for j, k in enumerate(ready):
                            it = R.be.pending[k]
                            if it[3] == cc and it[4] == lo:
                                g.pos += 1
                                return j + (1 if kind == "lock" else 0)
                        if kind == "poll":
                            g.pos += 1          # not pending here (drift): take the first one
                        return 0
                    if kind == "lock" and g.pos < len(g.toks):
                        g.pos += 1
                    return 0
                if kind == "cons":
                    for i in range(g.pos, len(g.toks)):
                        if g.toks[i][0] in ("N", "X"):
                            t = g.toks[i][0]; g.toks[i] = ("_",)
                            return 1 if t == "X" else 0
                    return 0
                return 0
        chooser = Guide(toks)
        with warnings.catch_warnings():
            warnings.simplefilter("ignore")
            r = pl1.Run(cfg, chooser); holder["r"] = r
            r.execute()
        out.append((r.events, [c for _, c, _ in r.choices], r.notes))
    return cfg, out


def model_guided(c, scenarios, num=40, depth=200, seed=0):
    """Design spec -> code: TLC -simulate behaviours of ParallelDesign are projected onto L1 decisions
    (completion order, placement relative to the caller's critical sections, consumer decisions) and replayed."""
    import glob, shutil
    jobs = []
    for k, cfg in enumerate(scenarios):
        cpath = os.path.join(VERIF, "out", "cfg", "PDS_%s_%d.cfg" % (c.pid, k))
        consts = model_constants(cfg)
        tlc.write_cfg(cpath, constants=consts, init="Init", next="Next")
        d = os.path.join(VERIF, "out", "sim", "%s_%d" % (c.pid, k))
        shutil.rmtree(d, ignore_errors=True); os.makedirs(d)
        r = tlc.run("ParallelDesign", cpath, simulate="file=%s/tr,num=%d" % (d, num), depth=depth, seed=seed + 1 + k, workers=1)
        c.add_tlc("simulate[%d]" % k, r)
        toklists = []
        for f in sorted(glob.glob(d + "/tr_*")):
            toklists.append(schedule_tokens(parse_sim_trace(open(f).read())))
        shutil.rmtree(d, ignore_errors=True)
        cfg2 = dict(cfg)
        if cfg2["mode"] != "list":
            cfg2["calls"] = [dict(cc, cons="close") for cc in cfg2["calls"]]
        jobs.append((cfg2, toklists))
    traces = []; meta = []
    with ProcessPoolExecutor(max_workers=min(8, max(1, len(jobs)))) as ex:
        for cfg, out in ex.map(_guided_one, jobs):
            for events, sched, notes in out:
                traces.append(events); meta.append({"cfg": cfg, "sched": sched, "notes": notes, "driver": "L1-model-guided"})
    c.extra["model_guided_replays"] = len(traces)
    return traces, meta
