"""Shared machinery of the Parallel family (C01 C04 C09 C16, bound of C15): explore the real code with the
L1/L2/L3 drivers, validate every recorded trace against specs/ParallelAbs.tla with TLC, attribute rejections
to the property named by the blocking clause."""
import os, sys, json, random, time, collections, re
from concurrent.futures import ProcessPoolExecutor
VERIF = os.path.dirname(os.path.dirname(os.path.abspath(__file__)))
if VERIF not in sys.path: sys.path.insert(0, VERIF)
from engine import tlc


def _cfg_id(cfg):
    return json.dumps(cfg, sort_keys=True, default=list)


def _explore_one(args):
    """worker: explore one scenario; returns list of (events, schedule, notes)"""
    cfg, how, amount, seed = args
    sys.path.insert(0, VERIF)
    from harness import pl1
    out = []

    def on_run(r, sched):
        out.append((r.events, list(sched), r.notes))
    if how == "dfs":
        runs, trunc = pl1.dfs(cfg, limit=amount, on_run=on_run)
        if trunc:
            rng = random.Random(seed)
            pl1.random_runs(cfg, max(50, amount // 4), rng, on_run=on_run, bias=0.5)
    elif how == "sched":
        for s in amount:
            r = pl1.run_schedule(cfg, s); on_run(r, s)
    else:
        rng = random.Random(seed)
        for bias in (0.15, 0.5, 0.85):
            pl1.random_runs(cfg, max(1, amount // 3), rng, on_run=on_run, bias=bias)
    return cfg, out


def explore(scenarios, seed=0, workers=8):
    """scenarios: list of (cfg, 'dfs'|'random'|'sched', amount).  Returns (traces, meta)."""
    jobs = [(cfg, how, amount, seed + k) for k, (cfg, how, amount) in enumerate(scenarios)]
    traces = []; meta = []
    with ProcessPoolExecutor(max_workers=workers) as ex:
        for cfg, out in ex.map(_explore_one, jobs, chunksize=1):
            for events, sched, notes in out:
                traces.append(events); meta.append({"cfg": cfg, "sched": sched, "notes": notes, "driver": "L1"})
    return traces, meta


def _l2_one(args):
    cfg, seeds, pswitch = args
    sys.path.insert(0, VERIF)
    from harness import pl2
    out = []
    for seed in seeds:
        r = pl2.random_run(cfg, seed, pswitch)
        out.append((r["events"], r["choices"], r["notes"], r["status"], seed))
    return cfg, out


def explore_l2(scenarios, seed=0, workers=12):
    """scenarios: list of (cfg, runs).  Random deterministic schedules (seeded), real threads."""
    jobs = []
    for k, (cfg, runs) in enumerate(scenarios):
        per = max(1, runs // 4)
        for j, ps in enumerate((0.2, 0.5, 0.8, 0.5)):
            base = seed * 100003 + k * 1009 + j * 100000
            jobs.append((cfg, list(range(base, base + per)), ps))
    traces = []; meta = []
    with ProcessPoolExecutor(max_workers=workers) as ex:
        for cfg, out in ex.map(_l2_one, jobs, chunksize=1):
            for events, choices, notes, status, sd in out:
                traces.append(events); meta.append({"cfg": cfg, "sched": choices, "notes": notes, "driver": "L2", "seed": sd, "status": status})
    return traces, meta


def validate(c, traces, meta, own, chunk=6000, label="L1"):
    """TLC-validate traces against ParallelAbs; record violations of property `own` (prefix of the clause)."""
    other = collections.Counter()
    for k in range(0, len(traces), chunk):
        part = traces[k:k + chunk]
        r, rej = tlc.validate_traces("ParallelTrace", "ParallelTrace.cfg", part)
        c.add_tlc("trace-validation %s[%d:%d]" % (label, k, k + len(part)), r)
        m = re.search(r'<<\s*"D9FLAGS",\s*\{([^}]*)\}', r.output)
        flagged = {int(x) - 1 for x in re.findall(r"\d+", m.group(1))} if m else set()
        for ti in flagged:
            mt = meta[k + ti]
            if own == "C09":
                c.violation({"clause": "C09.LookaheadDuringStart", "cfg": _short(mt["cfg"]), "sched": mt["sched"]},
                            "look-ahead exceeds the bound during the caller's initial dispatch loop (D9)",
                            {"trace": part[ti][:80]})
        for ti, (line, why) in rej.items():
            mt = meta[k + ti]
            prop = why.split(".")[0]
            if prop == own:
                c.violation({"clause": why, "driver": mt.get("driver", label), "cfg": _short(mt["cfg"]), "sched": mt["sched"]},
                            "%s: real execution rejected by ParallelAbs at event %d: clause %s" % (own, line, why),
                            {"event": part[ti][line - 1] if 0 < line <= len(part[ti]) else None,
                             "trace_prefix": part[ti][max(0, line - 40):line], "notes": mt.get("notes")})
            else:
                other[why] += 1
        c.traces_validated += len(part) - len(rej)
    if other:
        c.extra.setdefault("rejections_attributed_to_other_properties", {}).update(other)
        for why, n in other.items():
            if why.startswith("harness."):
                c.drift += n
    return other


def _short(cfg):
    return {k: (list(v) if isinstance(v, (set, tuple)) else v) for k, v in cfg.items() if k != "gap"}


def account(c, traces, meta):
    c.evaluations += len(traces)
    for t, m in zip(traces, meta):
        if any(m["sched"]):
            c.nontrivial.add((_cfg_id(m["cfg"]), tuple(m["sched"])))
    for t, m in list(zip(traces, meta))[:: max(1, len(traces) // 3)][:3]:
        c.sample({"cfg": _short(m["cfg"]), "schedule": m["sched"], "events": t[:40]})
