import os, sys, json, subprocess, random, shutil
from concurrent.futures import ThreadPoolExecutor
sys.path.insert(0, os.path.dirname(os.path.dirname(os.path.abspath(__file__))))
from checks import common
from engine import tlc

WORKER = os.path.join(common.VERIF, "harness", "evict_worker.py")


def enumerate_cases(c, n, sizes, times):
    path = os.path.join(common.VERIF, "out", "cfg", "EV_%d.cfg" % n)
    tlc.write_cfg(path, constants=dict(N=n, Sizes=set(sizes), Times=set(times), Now=4, Exhaustive=True), init="Init", next="Next",
                  invariants=["NonEmpty", "NothingIfFine"], constraint="Emit")
    r = tlc.run("Eviction", path, workers=1, timeout=1700, heap="6g")
    c.add_tlc("Eviction[N=%d]" % n, r)
    if not r.ok: raise tlc.TLCError("Eviction spec violates %s" % (r.violated,))
    return tlc.printed_json(r)


def run_chunk(args):
    base, k, cases = args
    d = os.path.join(base, "w%d" % k); os.makedirs(d)
    jf = os.path.join(d, "job.json"); json.dump({"base": d, "cases": cases}, open(jf, "w"))
    env = dict(os.environ, PYTHONPATH=os.environ.get("VERIF_REPO", "/repo"), PYTHONDONTWRITEBYTECODE="1")
    # the age limit compares access times with "now": the answer must not depend on the time zone of the process
    tz = (None, "XEA-9", "XWE5", "XIN-5:30")[k % 4]
    if tz: env["TZ"] = tz
    p = subprocess.run(["/venv/bin/python", WORKER, jf], env=env, capture_output=True, text=True, timeout=1700)
    if not os.path.exists(jf + ".out"):
        raise RuntimeError("evict worker failed: " + p.stderr[-500:])
    res = json.load(open(jf + ".out")); shutil.rmtree(d, ignore_errors=True)
    return res


def body(c):
    rng = random.Random(c.seed)
    cases = enumerate_cases(c, 3, (0, 1, 2), (1, 2, 3))
    c.extra["spec_states_N3"] = len(cases)
    c.exhaustive = not c.quick
    if c.quick:
        cases = rng.sample(cases, 2500)
    else:
        more = enumerate_cases(c, 4, (0, 1, 2), (1, 2))
        c.extra["spec_states_N4"] = len(more)
        cases = cases + rng.sample(more, min(len(more), 30000))
    for k, cs in enumerate(cases):
        cs["str"] = (k % 3 == 0)
        # every other store without an age limit holds one entry without output.pkl (left by a writer killed before the rename): it
        # counts towards the limits like the others.  Its access time is the directory's, which the scan itself refreshes on
        # relatime mounts: only the strictly most recently used entry is given that shape, and only without an age limit.
        cs["incomplete"] = 0
        if k % 2 == 1 and cs["age"] == -1 and cs["n"] >= 1:
            top = max(cs["atime"]); j = cs["atime"].index(top)
            if cs["atime"].count(top) == 1 and cs["size"][j] > 0: cs["incomplete"] = j + 1
    base = common.scratch("c18")
    nchunk = 14
    chunks = [(base, k, cases[k::nchunk]) for k in range(nchunk)]
    with ThreadPoolExecutor(max_workers=nchunk) as ex:
        results = list(ex.map(run_chunk, chunks))
    shutil.rmtree(base, ignore_errors=True)
    for (b, k, cs), res in zip(chunks, results):
        for case, r in zip(cs, res):
            c.evaluations += 1
            key = {"sizes": case["size"], "atimes": case["atime"], "bytes_limit": case["bytes"], "items_limit": case["items"], "age_limit": case["age"], "bytes_as_string": case["str"], "entry_without_output": case.get("incomplete", 0)}
            if case["n"] >= 2 and (case["bytes"], case["items"], case["age"]) != (-1, -1, -1):
                c.nontrivial.add(json.dumps(key, sort_keys=True))
            if "exc" in r:
                c.violation(dict(key, kind="exception"), "C18: reduce_size raised %s(%s) on store %s" % (r["exc"], r.get("msg"), key), {}); continue
            valid = [sorted(v) for v in case["valid"]]
            if r["evicted"] not in valid:
                c.violation(dict(key, kind="wrong_eviction", evicted=r["evicted"]),
                            "C18: reduce_size evicted %s; the shortest least-recently-used prefixes meeting the limits are %s (items = (size, access time): %s, limits bytes=%s items=%s age=%s)" %
                            (r["evicted"], valid, list(zip(case["size"], case["atime"])), case["bytes"], case["items"], case["age"]), {})
            if r["leftover_dirs"]:
                c.violation(dict(key, kind="partial_eviction"), "C18: evicted entries left a directory behind: %s" % r["leftover_dirs"], {})
            for pb in r["after"]:
                c.violation(dict(key, kind=pb[0]), "C18: after reduce_size: %s for item %d (store %s)" % (pb[0], pb[1], key), {})
    for cs in cases[:: max(1, len(cases) // 3)][:3]:
        c.sample(cs)
    c.traces_validated = c.evaluations
    c.rule = ("TLC enumerates every canonical store of Eviction.tla with <= 3 items (sizes {0,1,2} KiB, access times {1,2,3}, ties and zero sizes included) x "
              "bytes limit {None,0..6 KiB (int or 'nK' string)} x items limit {None,0..3} x age limit {None,0..4} together with the set of valid answers; "
              "each (sampled in the quick tier, all in the thorough tier plus sampled 4-item stores) is materialised as a real cache directory "
              "(real cached calls, padding, os.utime) and reduce_size is called; distinct non-trivial = stores with >= 2 items and at least one limit")
    c.assumptions += ["ages are kept away from the age_limit boundary by half a step (datetime.now() is read inside reduce_size)",
                      "tie-tolerant reading: with equal access times any order among the tied items is a legitimate LRU order"]


common.main("C18", "model_checking", body)
