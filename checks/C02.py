import os, sys
sys.path.insert(0, os.path.dirname(os.path.dirname(os.path.abspath(__file__))))
from checks import common, memargs


def body(c):
    # history dimension (hits after misses after clears, several live definitions) on the model
    import importlib.util
    from engine import tlc
    path = os.path.join(common.VERIF, "out", "cfg", "MD_C02.cfg")
    tlc.write_cfg(path, constants=dict(Procs={1}, Slots={1, 2}, Vers={1, 2}, Keys={"a", "b"}, Stores={1, 2}, MaxOps=6 if c.quick else 8,
                                       FixD6=True, FixD13=True, FixD5c=True, FixD20=True, Aliased=set(), Homonyms=set(), FixD21=True, Gen=False),
                  spec="Spec", invariants=["ValueCorrect"], properties=["HitWhenDue"], view="View")
    c.model_check("MemoryDesign[histories]", "MemoryDesign", path, workers=16, timeout=1500)
    memargs.run(c, "C02")


common.main("C02", "model_checking", body)
