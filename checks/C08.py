import os, sys, json, subprocess, shutil, random, collections
from concurrent.futures import ThreadPoolExecutor
sys.path.insert(0, os.path.dirname(os.path.dirname(os.path.abspath(__file__))))
from checks import common
from engine import tlc

WORKER = os.path.join(common.VERIF, "harness", "hash_worker.py")


def run_job(args):
    base, k, terms, seed = args
    jf = os.path.join(base, "job%d.json" % k); json.dump({"terms": terms}, open(jf, "w"))
    opt = ["-O"] if seed.startswith("O:") else []          # "O:<seed>": the interpreter strips assert statements
    p = subprocess.run(["/venv/bin/python"] + opt + [WORKER, jf], env=dict(os.environ, PYTHONPATH=os.environ.get("VERIF_REPO", "/repo"), PYTHONHASHSEED=seed.split(":")[-1], PYTHONDONTWRITEBYTECODE="1"), capture_output=True, text=True, timeout=3000)
    if not os.path.exists(jf + ".out"): raise RuntimeError("hash worker failed: " + p.stderr[-600:])
    return json.load(open(jf + ".out"))


def show(t):
    k = t[0]
    if k == "leaf": return {"None": "None", "True": "True", "False": "False", "i0": "0", "i1": "1", "f0": "0.0", "f1": "1.0", "fm0": "-0.0", "sa": "'ax'", "sb": "'bx'", "ba": "b'ax'", "se": "''"}[t[1]]
    if k == "list": return "[" + ", ".join(show(x) for x in t[1]) + "]"
    if k == "tuple": return "(" + ", ".join(show(x) for x in t[1]) + ("," if len(t[1]) == 1 else "") + ")"
    if k == "set": return "{" + ", ".join(show(x) for x in t[1]) + "}" if t[1] else "set()"
    if k == "fset": return "frozenset({" + ", ".join(show(x) for x in t[1]) + "})"
    return "{" + ", ".join(show(a) + ": " + show(b) for a, b in t[1]) + "}"


def body(c):
    c.spec_cases_replayed = True
    rng = random.Random(c.seed)
    path = os.path.join(common.VERIF, "out", "cfg", "HS.cfg")
    leaves0 = {"None", "True", "False", "i0", "i1", "f0", "f1", "fm0", "sa", "sb", "ba", "se"}
    # the universe grows too fast with the leaves allowed below depth-2 containers (4 leaves: > 15 min of enumeration);
    # the thorough tier takes the union of the universes of three 3-leaf choices instead
    l1s = [{"i1", "f1", "sa"}] if c.quick else [{"i1", "f1", "sa"}, {"f1", "sa", "ba"}, {"i1", "ba", "None"}]
    terms = []; seen_terms = set()
    for k, l1 in enumerate(l1s):
        tlc.write_cfg(path, constants=dict(Leaves0=leaves0, Leaves1=l1, MaxElems=2), init="Init", next="Next", constraint="Emit")
        r = tlc.run("Hasher", path, workers=1, timeout=1700, heap="8g"); c.add_tlc("Hasher[universe %d]" % k, r)
        for t in tlc.printed_json(r):
            key = json.dumps(t)
            if key not in seen_terms: seen_terms.add(key); terms.append(t)
    del seen_terms
    c.extra["universe"] = len(terms)
    seeds = ["0", "1", "2", "random", "O:3", "O:random"] if not c.quick else ["0", "1", "random", "O:2"]
    base = common.scratch("c08")
    nchunk = 5
    jobs = []
    for si, sd in enumerate(seeds):
        for k in range(nchunk):
            jobs.append((base, si * nchunk + k, terms[k::nchunk], sd))
    with ThreadPoolExecutor(max_workers=15) as ex:
        results = list(ex.map(run_job, jobs))
    shutil.rmtree(base, ignore_errors=True)
    digests = {"md5": collections.defaultdict(set), "sha1": collections.defaultdict(set)}      # term index -> digests seen anywhere
    fdig = {fl: collections.defaultdict(set) for fl in ("ordered", "default", "subclass")}       # the same with dicts replaced by another mapping type (md5)
    for (b, k, ts, sd), res in zip(jobs, results):
        part = k % nchunk
        for j, rec in enumerate(res):
            ti = part + j * nchunk
            c.evaluations += 1
            if "exc" in rec:
                c.violation({"kind": "raises", "value": show(terms[ti])}, "C08: joblib.hash raises on %s: %s" % (show(terms[ti]), rec["exc"]), {}); continue
            if not rec["again"]:
                c.violation({"kind": "not_deterministic_in_process", "value": show(terms[ti])}, "C08: hashing %s twice in one process gives two digests" % show(terms[ti]), {})
            if not rec["shared_strings"]:
                c.violation({"kind": "digest_depends_on_aliasing", "of": "str/bytes", "value": show(terms[ti])},
                            "C08: %s hashes differently when equal str/bytes leaves are one shared object instead of equal distinct objects" % show(terms[ti]), {})
            if not rec["shared_tuples"]:
                c.violation({"kind": "digest_depends_on_aliasing", "of": "tuple", "value": show(terms[ti])},
                            "C08: %s hashes differently when equal tuples are one shared object instead of equal distinct objects" % show(terms[ti]), {})
            for hn in ("md5", "sha1"): digests[hn][ti].update(rec[hn])
            for fl, ds in (rec.get("flavours") or {}).items(): fdig[fl][ti].update(ds)
    for hn in ("md5", "sha1"):
        owner = {}
        for ti, ds in digests[hn].items():
            t = terms[ti]
            unordered = json.dumps(t).count('"set"') + json.dumps(t).count('"fset"') + json.dumps(t).count('"dict"')
            if unordered: c.nontrivial.add(ti)
            if len(ds) > 1:
                kinds = sorted({x for x in ("set", "fset", "dict") if '"%s"' % x in json.dumps(t)})
                c.violation({"kind": "digest_depends_on_order_or_seed", "hash": hn, "value": show(t), "unordered_parts": kinds, "fset_inside_unordered": _fset_in_unordered(t)},
                            "C08: %s(%s) is not a function of the value: %d different digests over construction orders / PYTHONHASHSEED %s" % (hn, show(t), len(ds), seeds), {})
            for dg in ds:
                if dg in owner and owner[dg] != ti:
                    c.violation({"kind": "collision", "hash": hn, "values": sorted([show(t), show(terms[owner[dg]])])},
                                "C08: different values share a %s digest: %s and %s" % (hn, show(t), show(terms[owner[dg]])), {})
                owner[dg] = ti
    FL = {"ordered": "OrderedDict", "default": "defaultdict", "subclass": "a dict subclass"}
    for fl, per in fdig.items():
        owner = {}
        for ti, ds in per.items():
            t = terms[ti]
            if len(ds) > 1:
                c.violation({"kind": "digest_depends_on_order_or_seed", "mapping": fl, "value": show(t)}, "C08: with every dict replaced by %s, hash(%s) takes %d different values over construction orders / PYTHONHASHSEED" % (FL[fl], show(t), len(ds)), {})
            if ds & digests["md5"][ti]:
                c.violation({"kind": "type_not_discriminated", "mapping": fl, "value": show(t)}, "C08: %s hashes like the same value built with %s instead of dict" % (show(t), FL[fl]), {})
            for dg in ds:
                if dg in owner and owner[dg] != ti:
                    c.violation({"kind": "collision", "mapping": fl, "values": sorted([show(t), show(terms[owner[dg]])])},
                                "C08: with every dict replaced by %s, different values share a digest: %s and %s" % (FL[fl], show(t), show(terms[owner[dg]])), {})
                owner[dg] = ti
        c.extra.setdefault("mapping_flavour_terms", {})[fl] = len(per)
    for t in rng.sample(terms, 3): c.sample({"term": t, "python": show(t)})
    c.exhaustive = True
    c.rule = ("every term of Hasher.tla (leaves None/True/False/0/1/0.0/1.0/-0.0/'ax'/'bx'/b'ax'/''; list, tuple, set, frozenset, dict with <= 2 elements; depth 2 over a "
              "smaller leaf set) built from fresh objects in 3 construction orders, hashed with md5 and sha1 in interpreters with PYTHONHASHSEED %s ('O:' = under python -O); terms with a dict also with every dict replaced by OrderedDict / defaultdict / a dict subclass; all digests of one "
              "term must coincide and no two terms may share a digest (all pairs, by bucketing); non-trivial = terms with an unordered part" % seeds)
    c.assumptions += ["no aliased sub-objects (every occurrence is a fresh object), as in the property's universe"]


def _fset_in_unordered(t):
    """a frozenset used as a set element or dict key (partially ordered elements)"""
    k = t[0]
    if k == "leaf": return False
    if k in ("set", "fset"): return any(x[0] == "fset" or _fset_in_unordered(x) for x in t[1])
    if k == "dict": return any(a[0] == "fset" or _fset_in_unordered(a) or _fset_in_unordered(b) for a, b in t[1])
    return any(_fset_in_unordered(x) for x in t[1])


common.main("C08", "exploration", body)
