"""Shared runner for the per-property checks: collects TLC numbers, real executions, violations; prints the
verdict lines; writes evidence and replay files.  Exit codes: 0 held / 1 VIOLATION / 2 machinery failure."""
import os, sys, json, time, hashlib, traceback, argparse, shutil, tempfile
VERIF = os.path.dirname(os.path.dirname(os.path.abspath(__file__)))
if VERIF not in sys.path: sys.path.insert(0, VERIF)
from engine import tlc, evidence, findings

OUT = os.path.join(VERIF, "out")


def scratch(prefix="s"):
    d = os.path.join(OUT, "scratch"); os.makedirs(d, exist_ok=True)
    return tempfile.mkdtemp(prefix=prefix + "_", dir=d)


class Check:
    def __init__(self, pid, level, argv=None):
        ap = argparse.ArgumentParser()
        ap.add_argument("--tier", default=os.environ.get("VERIF_TIER", "quick"), choices=["quick", "thorough"])
        ap.add_argument("--replay", default=None)
        ap.add_argument("--seed", type=int, default=int(os.environ.get("VERIF_SEED", "0") or 0))
        a = ap.parse_args(argv)
        self.pid, self.level, self.tier, self.seed, self.replay = pid, level, a.tier, a.seed, a.replay
        self.t0 = time.time()
        self.states = 0; self.transitions = 0; self.tlc_runs = []
        self.traces_validated = 0; self.evaluations = 0
        self.nontrivial = set(); self.samples = []; self.violations = []; self.known = []
        self.extra = {}; self.assumptions = []; self.rule = ""; self.exhaustive = None
        self.drift = 0
        self.kf = findings.load()

    @property
    def quick(self): return self.tier == "quick"

    # ---- TLC bookkeeping
    def add_tlc(self, name, r, expect_ok=True):
        self.states += r.distinct; self.transitions += r.generated
        self.tlc_runs.append({"run": name, "distinct": r.distinct, "generated": r.generated, "depth": r.depth,
                              "wall_s": round(r.wall, 2), "result": "ok" if r.ok else "%s %s" % r.violated})
        return r

    spec_cases_replayed = False

    def model_check(self, name, module, cfg, must_hold=True, **kw):
        """Run TLC; a violated property of the *model* is a machinery failure unless must_hold=False
        (models of known-defective designs are checked for the expected counterexample)."""
        r = tlc.run(module, cfg, **kw)
        self.add_tlc(name, r)
        if must_hold and not r.ok:
            raise tlc.TLCError("model %s/%s violates %s:\n%s" % (module, cfg, r.violated, r.output[-2500:]))
        return r

    def sample(self, s, cap=6):
        if len(self.samples) < cap: self.samples.append(s)

    # ---- verdicts
    def violation(self, key, what, detail=None):
        """key: dict (canonical description of the failing case)"""
        f = findings.match(self.pid, key, self.kf)
        if f is not None:
            self.known.append((f, key)); return False
        self.violations.append({"key": key, "what": what, "detail": detail}); return True

    def finish(self, coverage_extra=None):
        wall = time.time() - self.t0
        if not self.traces_validated and self.spec_cases_replayed:
            # checks whose every evaluation is one specification-generated case executed on the real code (spec -> code replay)
            self.traces_validated = self.evaluations
        cov = {"evaluations": int(self.evaluations), "distinct_nontrivial": len(self.nontrivial) if isinstance(self.nontrivial, (set, dict)) else int(self.nontrivial),
               "rule": self.rule, "samples": self.samples[:8], "states": int(self.states), "transitions": int(self.transitions),
               "traces_validated_against_impl": int(self.traces_validated), "tlc_runs": self.tlc_runs,
               "known_findings_hit": sorted({f["what"] for f, _ in self.known}), "drift": self.drift}
        if self.exhaustive is not None: cov["exhaustive"] = bool(self.exhaustive)
        cov.update(self.extra)
        if coverage_extra: cov.update(coverage_extra)
        evidence.write(self.pid, self.tier, self.seed, self.level, cov, wall, len(self.violations), self.assumptions)
        seen = set()
        for f, key in self.known:
            if f["what"] in seen: continue
            seen.add(f["what"])
            print("KNOWN-FINDING: property=%s %s" % (self.pid, f["what"]))
        if self.violations:
            os.makedirs(os.path.join(OUT, "replays"), exist_ok=True)
            shown = set()
            for v in self.violations:
                dg = hashlib.sha1(json.dumps(v["key"], sort_keys=True, default=repr).encode()).hexdigest()[:12]
                path = os.path.join(OUT, "replays", "%s-%s.json" % (self.pid, dg))
                if path in shown: continue
                if len(shown) >= 50: break          # (a broken tree can yield thousands of failing cases: 50 replay files are enough)
                shown.add(path)
                with open(path, "w") as fh: json.dump({"property": self.pid, "tier": self.tier, "seed": self.seed, **v}, fh, indent=1, default=repr)
                if len(shown) <= 20:
                    print("VIOLATION property=%s replay=%s" % (self.pid, path))
                    print("  what: %s" % v["what"])
            print("%s: %d violation(s) in %d evaluations (%.1fs)" % (self.pid, len(self.violations), self.evaluations, wall))
            sys.exit(1)
        print("%s: held on everything explored - %d evaluations, %d nontrivial, TLC %d distinct states, %d impl traces validated, %.1fs"
              % (self.pid, self.evaluations, cov["distinct_nontrivial"], self.states, self.traces_validated, wall))
        sys.exit(0)


def main(pid, level, body):
    try:
        c = Check(pid, level)
        body(c)
        c.finish()
    except SystemExit:
        raise
    except tlc.TLCError as e:
        print("MACHINERY-FAILURE property=%s %s" % (pid, str(e)[:4000])); sys.exit(2)
    except BaseException:
        print("MACHINERY-FAILURE property=%s" % pid); traceback.print_exc(); sys.exit(2)
