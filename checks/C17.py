import os, sys, json, subprocess, shutil, random
from concurrent.futures import ThreadPoolExecutor
sys.path.insert(0, os.path.dirname(os.path.dirname(os.path.abspath(__file__))))
from checks import common
from engine import tlc

WORKER = os.path.join(common.VERIF, "harness", "config_worker.py")
KEYN = {"nj": "n_jobs", "vb": "verbose", "mx": "max_nbytes", "mm": "mmap_mode", "tf": "temp_folder", "backend": "backend", "outcome": "outcome"}
U = dict(b="U", nj="U", vb="U", mx="U", mm="U", tf="U", pf="U", rq="U")
EXPLICITS = [U, dict(U, nj="4"), dict(U, b="thr"), dict(U, b="proc"), dict(U, pf="threads"), dict(U, rq="sharedmem"), dict(U, mx="5M"), dict(U, pf="processes", vb="50"),
             dict(U, mm="w+", tf="/tmp/y")]


def cfg(name, frames, maxdepth, maxlen, gen, defb="proc", procavail=True, loose=False):
    path = os.path.join(common.VERIF, "out", "cfg", "CS_%s.cfg" % name)
    lines = ["CONSTANTS", "  Threads = {1, 2}", "  Frames <- %s" % frames, "  Explicits <- ExplicitsA", "  MaxDepth = %d" % maxdepth, "  MaxLen = %d" % maxlen, "  Gen = %s" % tlc.tla(gen), '  DefB = "%s"' % defb, "  ProcAvail = %s" % tlc.tla(procavail), "  Loose = %s" % tlc.tla(loose)]
    if gen: lines += ["INIT Init", "NEXT Next", "CONSTRAINT Emit"]
    else: lines += ["SPECIFICATION Spec", "INVARIANT SharedMemIsThreads", "INVARIANT ExplicitBackendWins", "INVARIANT PreferIsAHint", "PROPERTY Isolated", "PROPERTY Restored", "PROPERTY RestoredAtExit", "VIEW View"]
    lines.append("CHECK_DEADLOCK FALSE")
    os.makedirs(os.path.dirname(path), exist_ok=True); open(path, "w").write("\n".join(lines) + "\n")
    return path


def run_job(args):
    base, k, progs = args[:3]; defb = args[3] if len(args) > 3 else "proc"
    jf = os.path.join(base, "job%d.json" % k); json.dump({"explicits": EXPLICITS, "programs": progs, "default_backend": defb}, open(jf, "w"))
    env = dict(os.environ, PYTHONPATH=os.environ.get("VERIF_REPO", "/repo"), PYTHONDONTWRITEBYTECODE="1")
    if defb == "nomp": env["JOBLIB_MULTIPROCESSING"] = "0"
    p = subprocess.run(["/venv/bin/python", WORKER, jf], env=env, capture_output=True, text=True, timeout=3000)
    if not os.path.exists(jf + ".out"): raise RuntimeError("config worker failed: " + p.stderr[-600:])
    return json.load(open(jf + ".out"))


def body(c):
    rng = random.Random(c.seed)
    # two threads: (1 + 6 + 36 + 216)^2 = 67 081 stack states (10 frames at depth 4 would be 1.2e8: too many and no more informative)
    c.model_check("ConfigScope[2 threads, depth<=3, 6 frames]", "MCConfigScope", cfg("mc", "FramesB", 3, 0, False), workers=16, timeout=600)
    progs = []
    r = tlc.run("MCConfigScope", cfg("gen3", "FramesB", 3, 3, True), workers=1, timeout=900, heap="6g"); c.add_tlc("ConfigScope-gen[L=3]", r)
    progs += tlc.printed_json(r, sample=900 if c.quick else 60000, seed=c.seed); c.extra["programs_exhaustive_L3_total"] = getattr(r, "printed_total", None); r.output = ""
    r = tlc.run("MCConfigScope", cfg("sim", "FramesA", 4, 6 if c.quick else 10, True), simulate="num=%d" % (200 if c.quick else 4000), depth=8 if c.quick else 14, seed=c.seed + 17, workers=1, timeout=900)
    c.add_tlc("ConfigScope-simulate[depth 4]", r)
    long = tlc.printed_json(r, sample=300 if c.quick else 4000, seed=c.seed + 1); r.output = ""
    c.extra["programs_exhaustive_L3"] = len(progs); c.extra["programs_simulated"] = len(long)
    if len(long) > (300 if c.quick else 4000): long = rng.sample(long, 300 if c.quick else 4000)
    if c.quick and len(progs) > 900: progs = rng.sample(progs, 900)
    allp = progs + long
    # the same with a thread-based process-wide default backend (register_parallel_backend(..., make_default=True))
    c.model_check("ConfigScope[thread-based default backend]", "MCConfigScope", cfg("mct", "FramesC", 2 if c.quick else 3, 0, False, defb="thr"), workers=16, timeout=600)
    r = tlc.run("MCConfigScope", cfg("simt", "FramesA", 4, 5 if c.quick else 8, True, defb="thr"), simulate="num=%d" % (100 if c.quick else 2000), depth=7 if c.quick else 12, seed=c.seed + 19, workers=1, timeout=900)
    c.add_tlc("ConfigScope-simulate[thread-based default]", r)
    pt = tlc.printed_json(r)
    r = tlc.run("MCConfigScope", cfg("gent", "FramesC", 2, 2, True, defb="thr"), workers=1, timeout=900, heap="6g"); c.add_tlc("ConfigScope-gen[thread-based default, L=2]", r)
    pt += tlc.printed_json(r)
    c.extra["programs_thread_default"] = len(pt)
    if len(pt) > (400 if c.quick else 6000): pt = rng.sample(pt, 400 if c.quick else 6000)
    # an interpreter without process-based backends (JOBLIB_MULTIPROCESSING=0): naming one falls back to threads, prefer stays a hint
    c.model_check("ConfigScope[no process backend available]", "MCConfigScope", cfg("mcn", "FramesC", 2 if c.quick else 3, 0, False, defb="thr", procavail=False), workers=16, timeout=600)
    r = tlc.run("MCConfigScope", cfg("simn", "FramesA", 4, 5 if c.quick else 8, True, defb="thr", procavail=False), simulate="num=%d" % (60 if c.quick else 1500), depth=7 if c.quick else 12, seed=c.seed + 23, workers=1, timeout=900)
    c.add_tlc("ConfigScope-simulate[no process backend]", r)
    pn = tlc.printed_json(r)
    r = tlc.run("MCConfigScope", cfg("genn", "FramesC", 2, 2, True, defb="thr", procavail=False), workers=1, timeout=900, heap="6g"); c.add_tlc("ConfigScope-gen[no process backend, L=2]", r)
    pn += tlc.printed_json(r)
    c.extra["programs_no_process_backend"] = len(pn)
    if len(pn) > (250 if c.quick else 5000): pn = rng.sample(pn, 250 if c.quick else 5000)
    # configurations installed without a with block inside with blocks (parallel_backend(...) as a plain statement)
    c.model_check("ConfigScope[configurations installed without a with block]", "MCConfigScope", cfg("mcl", "FramesC", 2 if c.quick else 3, 0, False, loose=True), workers=16, timeout=600)
    r = tlc.run("MCConfigScope", cfg("siml", "FramesA", 4, 6 if c.quick else 9, True, loose=True), simulate="num=%d" % (150 if c.quick else 3000), depth=8 if c.quick else 13, seed=c.seed + 29, workers=1, timeout=900)
    c.add_tlc("ConfigScope-simulate[loose configurations]", r)
    pl = [p for p in tlc.printed_json(r) if any(a["act"]["op"] == "install" for a in p)]
    c.extra["programs_with_loose_configurations"] = len(pl)
    if len(pl) > (150 if c.quick else 3000): pl = rng.sample(pl, 150 if c.quick else 3000)
    allp = allp + pl
    base = common.scratch("c17")
    nw = 14
    jobs = [(base, k, allp[k::nw]) for k in range(nw)] + [(base, nw + k, pt[k::4], "thr") for k in range(4)] + [(base, nw + 4 + k, pn[k::3], "nomp") for k in range(3)]
    with ThreadPoolExecutor(max_workers=nw) as ex:
        results = list(ex.map(run_job, jobs))
    shutil.rmtree(base, ignore_errors=True)
    for b_k_ps, res in zip(jobs, results):
        ps = b_k_ps[2]
        for prog, r in zip(ps, res):
            c.evaluations += 1
            acts = [[a["act"]["op"], a["act"]["t"]] + ([{kk: vv for kk, vv in a["act"]["f"].items() if vv != "U"}] if a["act"]["op"] in ("enter", "fail_enter", "install") else [a["act"]["how"]]) for a in prog]
            c.nontrivial.add(json.dumps(acts, sort_keys=True))
            for pb in r["problems"]:
                key = {"default_backend": (b_k_ps[3] if len(b_k_ps) > 3 else "proc"), "setting": KEYN.get(pb.get("key"), pb.get("kind")), "thread_forced_to_threads": bool(pb.get("forced_threads")), "got": pb.get("got"), "program": acts, "step": pb.get("step"),
                       "observer": pb.get("thread"), "explicit": EXPLICITS[pb["explicit"]] if "explicit" in pb else None}
                if pb.get("kind") in ("observe_raised", "action_raised"):
                    key["got"] = pb.get("detail")
                    c.violation(key, "C17: after %s thread %s: %s: %s (default backend: %s)" % (acts[: (pb.get("step") or 0) + 1], pb.get("thread"),
                                {"observe_raised": "constructing Parallel with one of the explicit-argument variants raised", "action_raised": "entering / leaving the context raised"}[pb["kind"]], pb.get("detail"), key["default_backend"]), pb)
                    continue
                c.violation(key, "C17: after %s thread %s constructing Parallel(%s) resolves %s = %r, expected %r (explicit > innermost context > outer > default)" %
                            (acts[: (pb.get("step") or 0) + 1], pb.get("thread"), {kk: vv for kk, vv in (key["explicit"] or {}).items() if vv != "U"}, key["setting"], pb.get("got"), pb.get("want")), pb)
    c.traces_validated = c.evaluations
    for p in allp[:: max(1, len(allp) // 3)][:2]: c.sample([a["act"] for a in p])
    c.rule = ("programs generated from ConfigScope.tla: every sequence of 3 enter / failed-construction / exit(return|exception) actions of 2 threads over 6 frames (exhaustive; sampled in quick), "
              "TLC-simulated programs of 8-10 actions over 10 frames up to nesting depth 4; after EVERY action BOTH threads construct Parallel with 9 explicit-argument "
              "variants and the resolved backend kind, n_jobs, verbose, max_nbytes, mmap_mode, temp_folder (as received by a recording backend's configure) are "
              "compared with the specification; distinct = program")
    c.assumptions += ["built-in backend names are bound to recording backends through the public register_parallel_backend (no pools are started)"]


common.main("C17", "model_checking", body)
