"""ArgBinding.tla (Python's binding rules, transcribed) as enumerator + oracle: helpers shared by C07, C02, C06."""
import os, sys, json
VERIF = os.path.dirname(os.path.dirname(os.path.abspath(__file__)))
if VERIF not in sys.path: sys.path.insert(0, VERIF)
from engine import tlc


def enumerate_states(c, maxn, extra_pos=1):
    """Run TLC on ArgBinding and return the list of states {sig, npos, kw, res}."""
    path = os.path.join(VERIF, "out", "cfg", "AB_%d.cfg" % maxn)
    tlc.write_cfg(path, constants={"MaxN": maxn, "MaxExtraPos": extra_pos}, init="Init", next="Next", constraint="Emit")
    r = tlc.run("ArgBinding", path, workers=1, timeout=1800, heap="6g")
    c.add_tlc("ArgBinding[MaxN=%d]" % maxn, r)
    return tlc.printed_json(r)


def build(sig, method=False):
    """Materialise a signature as a real function returning its own bindings.  Returns (callable, names, source)."""
    names = ["p%d" % i for i in range(1, len(sig) + 1)]
    parts = []
    kinds = [p["k"] for p in sig]
    for i, p in enumerate(sig):
        k = p["k"]; nm = names[i]
        if k in ("PK", "VA", "KO", "VK") and "PO" in kinds and "/" not in parts: parts.append("/")
        if k == "KO" and "VA" not in kinds and "*" not in parts: parts.append("*")
        s = {"PO": nm, "PK": nm, "VA": "*" + nm, "KO": nm, "VK": "**" + nm}[k]
        if p["d"]: s += "=D[%d]" % (i + 1)
        parts.append(s)
    if "PO" in kinds and "/" not in parts: parts.append("/")
    ret = "{%s}" % ", ".join("%r: %s" % (n, n) for n in names)
    ns = {"D": {i: ("dflt", i) for i in range(1, len(sig) + 1)}}
    if method:
        src = "class K:\n    def f(self, %s): return %s\n" % (", ".join(parts), ret)
        exec(src, ns); inst = ns["K"](); return inst.f, names, src, inst
    src = "def f(%s): return %s" % (", ".join(parts), ret)
    exec(src, ns)
    return ns["f"], names, src, None


def call_of(st, names, foreign="zz"):
    args = tuple(("pos", j) for j in range(st["npos"]))
    kwargs = {(foreign if i == 0 else names[i - 1]): ("kw", i) for i in st["kw"]}
    return args, kwargs


def expected(st, names, foreign="zz"):
    """the spec's mapping in filter_args vocabulary ('*' / '**' for the variadic parameters)"""
    sig = st["sig"]; exp = {}
    for i, (p, b) in enumerate(zip(sig, st["res"][1]), 1):
        nm = names[i - 1]
        if b[0] == "pos": v = ("pos", b[1])
        elif b[0] == "kw": v = ("kw", b[1])
        elif b[0] == "dflt": v = ("dflt", b[1])
        elif b[0] == "star": v = [("pos", j) for j in range(b[1], b[2])]
        else: v = {(foreign if j == 0 else names[j - 1]): ("kw", j) for j in b[1]}
        exp["*" if p["k"] == "VA" else "**" if p["k"] == "VK" else nm] = v
    return exp


def cpython_binding(f, sig, names, args, kwargs):
    """what CPython really binds (second anchor of the oracle), in the same vocabulary; None if the call is rejected"""
    try:
        real = f(*args, **kwargs)
    except TypeError:
        return None
    out = {}
    for n, v in real.items():
        k = sig[names.index(n)]["k"]
        out["*" if k == "VA" else "**" if k == "VK" else n] = list(v) if k == "VA" else v
    return out
