import os, sys, json, shutil, time, collections
from concurrent.futures import ThreadPoolExecutor
sys.path.insert(0, os.path.dirname(os.path.dirname(os.path.abspath(__file__))))
from checks import common, cachefs_model
from harness import fsctl

# workload = (name, prepare: list of (ver, opts, ops) run unshimmed, target: (ver, opts, ops) run under the interposer with
#             the crash, reader version, probe arguments)
WORKLOADS = [
    ("cold_call", [], (1, {}, [["call", 3]]), 1, [3, 5]),
    ("second_arg", [(1, {}, [["call", 3]])], (1, {}, [["call", 4]]), 1, [3, 4]),
    ("source_change", [(1, {}, [["call", 3], ["call", 4]])], (2, {}, [["call", 3]]), 2, [3, 4]),
    ("expired_entry", [(1, {"expires": 1000}, [["call", 3]])], (1, {"expires": 0}, [["call", 3]]), 1, [3]),
    ("call_and_shelve", [], (1, {}, [["shelve", 3]]), 1, [3]),
    ("compressed", [], (1, {"compress": True}, [["call", 3]]), 1, [3]),
    ("reduce_size", [(1, {}, [["call", 1], ["call", 2], ["call", 3]])], (1, {}, [["reduce", {"items_limit": 1}]]), 1, [1, 2, 3]),
    ("clear_func", [(1, {}, [["call", 1], ["call", 2]])], (1, {}, [["clear"]]), 1, [1, 2]),
    ("clear_all", [(1, {}, [["call", 1], ["call", 2]])], (1, {}, [["clear_all"]]), 1, [1, 2]),
    ("warm_call", [(1, {}, [["call", 3]])], (1, {}, [["call", 3]]), 1, [3]),
]
QUICK = {"cold_call", "source_change", "expired_entry", "call_and_shelve", "reduce_size", "clear_func", "compressed"}


# workloads that have a counterpart in CacheFS.tla: (model configuration, argument -> model key)
MODEL_OF = {
    "cold_call": (dict(ops="C", vers="1", keys="A", crash=1, sequential=True), {3: "a", 5: "b"}),
    "second_arg": (dict(ops="C", vers="1", keys="B", crash=1, sequential=True, warm=("a",)), {3: "a", 4: "b"}),
    "source_change": (dict(ops="C", vers="2", keys="A", crash=1, sequential=True, warm=("a", "b")), {3: "a", 4: "b"}),
    "clear_func": (dict(ops="L", vers="1", keys="A", crash=1, sequential=True, warm=("a", "b")), {1: "a", 2: "b"}),
    "reduce_size": None,        # evicts by access time: which entries go is not in the model (it evicts all)
}


def snapshot(root, keymap, code_texts):
    """classify the function directory of a (crashed) cache in the vocabulary of CacheFS.tla"""
    import joblib, glob
    fdir = os.path.join(root, "joblib", "cachedmod", "f")
    ex = []; ct = []
    if not os.path.isdir(fdir): return cachefs_model.canon([], [])
    ex.append(["F"])
    cp = os.path.join(fdir, "func_code.py")
    if os.path.exists(cp):
        txt = open(cp, "rb").read(); ex.append(["F", "code"])
        v = [k for k, t in code_texts.items() if t == txt]
        ct.append([["F", "code"], ["code", v[0]] if v else ["empty"] if not txt else ["partial"]])
    for name in os.listdir(fdir):
        d = os.path.join(fdir, name)
        if not os.path.isdir(d): continue
        key = None
        for fn in os.listdir(d):
            fp = os.path.join(d, fn)
            if fn.startswith("output.pkl"):
                try:
                    val = joblib.load(fp); cls = ["val", int(val[0][1:]), keymap[val[1]]]; key = keymap[val[1]]
                except Exception:
                    cls = ["partial"]
                ct.append([fn, cls])
            elif fn.startswith("metadata.json"):
                try:
                    m = json.load(open(fp)); cls = ["meta"]; key = key or keymap.get(eval(m["input_args"]["x"]))
                except Exception:
                    cls = ["partial"]
                ct.append([fn, cls])
        if key is None:
            key = {joblib.hash({"x": a, "y": 0}): kk for a, kk in keymap.items()}.get(name, "?" + name[:4])
        ex.append(["F", key])
        fixed = []
        for fn, cls in [c2 for c2 in ct if isinstance(c2[0], str)]:
            kind = "out" if fn == "output.pkl" else "metaf" if fn == "metadata.json" else "tmpo" if fn.startswith("output.pkl") else "tmpm"
            pth = ["F", key, kind + ("1" if kind.startswith("tmp") else "")]
            ex.append(pth); fixed.append([pth, cls])
        ct = [c2 for c2 in ct if not isinstance(c2[0], str)] + fixed
    return cachefs_model.canon(ex, ct)


def torn_lengths(n, path, quick):
    small = path.endswith("func_code.py") or "metadata.json" in path
    if small and not quick:
        return list(range(1, n))
    cand = {1, 13, 14, 15, n // 2, n - 1}
    if path.endswith("func_code.py"):
        # the stored source contains non-ASCII characters: also tear inside each of them
        for txt in CODE_TEXTS.values():
            if len(txt) == n:
                cand |= {k for k in range(1, n) if txt[k] & 0xC0 == 0x80}
    return sorted(k for k in cand if 0 < k < n)


CODE_TEXTS = {}


def spec_of(base, ver, opts, ops):
    return dict(moddir=os.path.join(base, "mod_v%d" % ver), ver=ver, log=os.path.join(base, "exec.log"), opts=opts, ops=ops)


def build_template(base, wl):
    name, prepare, target, rver, probes = wl
    tdir = os.path.join(base, "template"); os.makedirs(tdir)
    for ver, opts, ops in prepare:
        rc, lines, err = fsctl.run_plain(tdir, spec_of(base, ver, opts, ops))
        if rc != 0 or any("exc" in l for l in lines):
            raise RuntimeError("prepare of %s failed: %s %s" % (name, lines, err))
    return tdir


def one_case(args):
    """args = (base, wl, case id, crash index k (None = no crash), torn length or None).  Returns a result record."""
    base, wl, cid, k, torn = args
    name, prepare, target, rver, probes = wl
    cdir = os.path.join(base, "case%d" % cid)
    root = os.path.join(cdir, "cache")
    os.makedirs(cdir)
    shutil.copytree(os.path.join(base, "template"), root)
    count = [0]; crashed_at = [None]

    def policy(waiting, step):
        pi = next(iter(waiting)); req = waiting[pi]
        if req.op in fsctl.MUTATING:
            idx = count[0]; count[0] += 1
            if k is not None and idx == k:
                crashed_at[0] = req.short()
                if torn is not None and req.op == "write":
                    return pi, "T%d" % torn
                return pi, "K"
        return pi, "G"
    outs, trace = fsctl.run(root, [spec_of(cdir, *target)], policy)
    rec = {"workload": name, "k": k, "torn": torn, "crash_before": crashed_at[0], "rc": outs[0][0], "target_out": outs[0][1],
           "trace": [t[0][1:] + [t[1]] for t in trace], "problems": []}
    if k is None:
        shutil.rmtree(cdir, ignore_errors=True)
        return rec
    if MODEL_OF.get(name):
        try: rec["snapshot"] = cachefs_model.snapshot(root, MODEL_OF[name][1], CODE_TEXTS)
        except Exception as e: rec["snapshot_error"] = repr(e)[:200]
    # recovery: fresh interpreters, no interposer, each reader kind on its own copy of the crashed directory
    readers = [("plain", {}, [["loadall"]] + [["call", a] for a in probes]),
               ("plain_rev", {}, [["call", a] for a in reversed(probes)]),
               ("shelve", {}, [["shelve", a] for a in probes]),
               ("expires", {"expires": 1000}, [["call", a] for a in probes]),
               # the same with the messages of a verbose Memory on (they are built from the stored metadata)
               ("shelve_verbose", {"verbose": 11}, [["shelve", a] for a in probes]),
               ("custom_callback", {"callback": "duration"}, [["call", a] for a in probes])]
    if target[1].get("compress"):
        readers = [(n, dict(o, compress=True), ops) for n, o, ops in readers]
    for rname, ropts, rops in readers:
        rroot = os.path.join(cdir, "rec_" + rname)
        shutil.copytree(root, rroot)
        rc, lines, err = fsctl.run_plain(rroot, spec_of(os.path.join(cdir, "r_" + rname), rver, ropts, rops))
        if rc != 0 or len(lines) != len(rops):
            rec["problems"].append({"reader": rname, "kind": "reader_died", "rc": rc, "err": err[-200:]})
            continue
        for op, l in zip(rops, lines):
            if "exc" in l:
                rec["problems"].append({"reader": rname, "kind": "exception", "op": op, "exc": l["exc"], "msg": l.get("msg")})
            elif op[0] == "loadall":
                if l["value"]:
                    rec["problems"].append({"reader": rname, "kind": "final_name_incomplete", "files": l["value"]})
            else:
                exp = ["v%d" % rver, op[1], 0]
                if l["value"] != exp:
                    stale = isinstance(l["value"], list) and l["value"][:1] != exp[:1] and l["value"][1:] == exp[1:]
                    rec["problems"].append({"reader": rname, "kind": "stale_value" if stale else "wrong_value", "op": op, "got": l["value"]})
    shutil.rmtree(cdir, ignore_errors=True)
    return rec


def body(c):
    cachefs_model.run_c05(c)
    wls = [w for w in WORKLOADS if (not c.quick) or w[0] in QUICK]
    # reference texts of func_code.py for both versions (complete files)
    refb = common.scratch("c05_ref")
    for v in (1, 2):
        rd = os.path.join(refb, "v%d" % v); os.makedirs(rd)
        fsctl.run_plain(rd, spec_of(refb, v, {}, [["call", 3]]))
        CODE_TEXTS[v] = open(os.path.join(rd, "joblib", "cachedmod", "f", "func_code.py"), "rb").read()
    shutil.rmtree(refb, ignore_errors=True)
    cases = []; bases = []
    for wl in wls:
        base = common.scratch("c05_" + wl[0]); bases.append(base)
        build_template(base, wl)
        # baseline run: the sequence of file-system calls of the target operation
        ref = one_case((base, wl, 0, None, None))
        if any("exc" in l for l in ref["target_out"]):
            raise RuntimeError("target of %s fails without any crash: %s" % (wl[0], ref["target_out"]))
        mut = [t for t in ref["trace"] if t[0] in fsctl.MUTATING]
        c.sample({"workload": wl[0], "fs_calls": ref["trace"][:60]}, cap=3)
        cid = 1
        for k, t in enumerate(mut):
            cases.append((base, wl, cid, k, None)); cid += 1
            if t[0] == "write":
                n = int(t[2]) if len(t) > 2 and str(t[2]).isdigit() else 0
                for ln in torn_lengths(n, t[1], c.quick):
                    cases.append((base, wl, cid, k, ln)); cid += 1
        c.extra.setdefault("mutating_calls", {})[wl[0]] = len(mut)
    model_states = {w: cachefs_model.crash_states(c, w, **MODEL_OF[w][0]) for w in [x[0] for x in wls] if MODEL_OF.get(w)}
    with ThreadPoolExecutor(max_workers=14) as ex:
        results = list(ex.map(one_case, cases))
    nconf = 0; ndrift = 0
    for r in results:
        if "snapshot" in r:
            nconf += 1
            if r["snapshot"] not in model_states[r["workload"]]:
                ndrift += 1
                if ndrift <= 5:
                    print("DRIFT property=C05 crash state of the real directory is not a crash state of CacheFS: workload=%s crash_before=%s torn=%s snapshot=%s" %
                          (r["workload"], r["crash_before"], r["torn"], r["snapshot"][:400]))
        elif "snapshot_error" in r:
            ndrift += 1
    c.extra["crash_states_compared_with_model"] = nconf; c.extra["crash_states_not_in_model"] = ndrift
    c.drift += ndrift; c.traces_validated = nconf - ndrift
    for b in bases:
        shutil.rmtree(b, ignore_errors=True)
    kinds = collections.Counter()
    for r in results:
        c.evaluations += 1
        c.nontrivial.add((r["workload"], r["k"], r["torn"]))
        if r["rc"] != 137:
            kinds["not_crashed_rc=%s" % r["rc"]] += 1
        for pb in r["problems"]:
            where = r["crash_before"]
            key = {"workload": r["workload"], "kind": pb["kind"], "reader": pb["reader"], "crash_before": where, "torn": r["torn"],
                   "detail": pb.get("exc") or pb.get("got") or pb.get("files")}
            # the open finding D5c: crash inside the clear() of a source change -> stale entries of the old code
            if pb["kind"] == "stale_value" and r["workload"] == "source_change" and where and where[1] in ("unlink", "rmdir"):
                key["finding"] = "D5c"
            c.violation(key, "C05: after a crash %s of workload %s a fresh %s reader gets %s" %
                        ("before %s" % where[1:] + (" (torn write, %s bytes)" % r["torn"] if r["torn"] is not None else ""), r["workload"], pb["reader"],
                         {k: v for k, v in pb.items() if k not in ("reader",)}), {"record": r})
    c.extra["crash_runs_that_did_not_crash"] = dict(kinds)
    c.extra["workloads"] = [w[0] for w in wls]
    c.rule = ("each case = one workload x one crash point: the process is killed (_exit) by the LD_PRELOAD interposer immediately before the "
              "k-th mutating file-system call under the cache directory (or in the middle of a write: torn lengths), then three fresh "
              "interpreters (plain call + joblib.load of every output.pkl, call_and_shelve().get(), expires_after) use copies of the "
              "crashed directory; distinct = (workload, k, torn length)")
    c.exhaustive = True
    c.assumptions += ["crash = process death between two libc file-system calls or inside a write (prefix persisted); no loss of completed calls (no power failure model)",
                      "interposer sees libc calls only (pure-Python joblib without numpy: all of them)"]


common.main("C05", "fault_enumeration", body)
