import os, sys, json, subprocess, shutil, random
from concurrent.futures import ThreadPoolExecutor
sys.path.insert(0, os.path.dirname(os.path.dirname(os.path.abspath(__file__))))
from checks import common
from engine import tlc

WORKER = os.path.join(common.VERIF, "harness", "array_worker.py")
PYVT = shutil.which("python3-vt") or "python3-vt"


def run_job(args):
    base, k, cases, par = args[:4]; optimized = len(args) > 4 and args[4]
    d = os.path.join(base, "w%d" % k); os.makedirs(d)
    jf = os.path.join(d, "job.json"); json.dump({"dir": os.path.join(d, "files"), "cases": cases}, open(jf, "w"))
    env = dict(os.environ, PYTHONPATH=os.environ.get("VERIF_REPO", "/repo"), PYTHONDONTWRITEBYTECODE="1", JOBLIB_TEMP_FOLDER=d)
    with open(os.path.join(d, "log"), "w") as lf:
        try: subprocess.run([PYVT] + (["-O"] if optimized else []) + [WORKER] + (["--parallel"] if par else []) + [jf], env=env, stdout=lf, stderr=lf, stdin=subprocess.DEVNULL, timeout=3000)
        except subprocess.TimeoutExpired: pass
    if not os.path.exists(jf + ".out"): raise RuntimeError("array worker failed: " + open(os.path.join(d, "log")).read()[-600:])
    r = json.load(open(jf + ".out"))
    subprocess.run(["pkill", "-9", "-f", d + "/"])      # (the trailing slash keeps sibling directories w1 / w10 apart); shutil.rmtree(d, ignore_errors=True)
    return r


OPT_LEG = True      # a sample of the cases is replayed under "python -O" (assert statements stripped)


def body(c):
    c.spec_cases_replayed = True
    rng = random.Random(c.seed)
    dtypes = ["float64", "int32", "big_int32", "big_float64", "bool", "complex128", "S3", "U3", "V7", "datetime", "timedelta", "record", "mixed_endian_record", "packed5", "object", "uint8"]
    shapes = ["0d", "empty", "empty2d", "vec", "mat", "cube", "big", "bigmat"]
    layouts = ["C", "F", "noncontig", "transposed", "reversed", "memmap"]
    consts = dict(A=16, MaxPos=4096, DTypes=set(dtypes), Shapes=set(shapes), Layouts=set(layouts), Compressors={"none", "zlib", "gzip", "bz2", "lzma", "xz"},
                  MmapModes={"None", "r", "r+", "c"}, Containers={"alone", "list", "dict"}, Classes={"ndarray", "matrix", "recarray", "masked", "user"})
    path = os.path.join(common.VERIF, "out", "cfg", "AL.cfg")
    tlc.write_cfg(path, constants=consts, init="Init", next="Next", constraint="Emit")
    r = tlc.run("ArrayLayout", path, workers=1, timeout=900, heap="6g"); c.add_tlc("ArrayLayout[cases]", r)
    cases = tlc.printed_json(r)
    path2 = os.path.join(common.VERIF, "out", "cfg", "AL2.cfg")
    open(path2, "w").write(open(path).read().replace("CONSTRAINT Emit\n", "").replace("CHECK_DEADLOCK", "INVARIANT AlignedInv\nCHECK_DEADLOCK"))
    c.extra["spec_cases"] = len(cases)
    # the padding arithmetic for every start position (evaluated once by TLC as an assumption-like invariant)
    path3 = os.path.join(common.VERIF, "out", "cfg", "AL3.cfg")
    small = dict(consts, DTypes={"float64"}, Shapes={"vec"}, Layouts={"C"}, Compressors={"none"}, MmapModes={"None"}, Containers={"alone"}, Classes={"ndarray"})
    tlc.write_cfg(path3, constants=small, init="Init", next="Next", invariants=["Aligned"])
    c.model_check("ArrayLayout[padding for every position 0..4096]", "ArrayLayout", path3, workers=1, timeout=300)
    n = 1500 if c.quick else 20000
    plain = [x for x in cases if x["class"] == "ndarray"]; subs = [x for x in cases if x["class"] != "ndarray"]
    c.extra["spec_cases_subclasses"] = len(subs)
    if len(plain) > n: plain = rng.sample(plain, n)
    if len(subs) > n // 5: subs = rng.sample(subs, n // 5)
    cases = plain + subs
    protos = [None, 2, 3, 4, 5, -1, 0, 1]          # (-1 = "highest", resolved by pickle itself)
    for k, cs in enumerate(cases): cs["protocol"] = protos[k % len(protos)]
    base = common.scratch("c19")
    nw = 14
    jobs = [(base, k, cases[k::nw], False) for k in range(nw)]
    # automatic memmapping leg: thresholds just below / at / above nbytes, no memmapping at all
    pcases = []
    for dt in (["float64", "big_int32", "S3", "record", "object"] if c.quick else dtypes):
        for lay in (["C", "F", "memmap", "transposed", "reversed", "memmap_T", "memmap_rev", "memmap_strided", "memmap_view"] if not c.quick else ["C", "memmap", "transposed", "memmap_T", "memmap_rev", "memmap_view"]):
            for delta in (-1, 0, None):
                if dt == "object" and lay.startswith("memmap"): continue        # a memory map of object pointers is meaningless in another process
                pcases.append({"dtype": dt, "shape": "bigmat" if lay in ("F", "transposed", "memmap_T", "memmap_strided") else "big", "layout": lay, "delta": delta})
    # every documented mmap_mode of Parallel ("None will disable memmapping")
    pmodes = ["r", "c", "None", "r+", "w+"]
    for k, cs in enumerate(pcases): cs["mode"] = pmodes[k % len(pmodes)]
    # both process backends have their own memmapping reducers set-up (loky: executor, multiprocessing: MemmappingPool)
    for k, cs in enumerate(pcases): cs["backend"] = "multiprocessing" if k % 4 == 3 else "loky"
    pj = [(base, 100 + k, pcases[k::4], True) for k in range(4)]
    # the same round trips with assertions stripped (python -O / PYTHONOPTIMIZE): nothing may depend on an assert statement
    ocases = cases[:: max(1, len(cases) // (150 if c.quick else 2000))]
    oj = [(base, 200 + k, ocases[k::3], False, True) for k in range(3)]
    njobs_plain = len(jobs)
    jobs = jobs + oj
    with ThreadPoolExecutor(max_workers=nw) as ex:
        results = list(ex.map(run_job, jobs + pj))
    shutil.rmtree(base, ignore_errors=True)
    for jb, res in zip(jobs + pj, results):
        cs, par = jb[2], jb[3]; opt = len(jb) > 4 and jb[4]
        for case, r in zip(cs, res):
            c.evaluations += 1
            key = {"leg": "workers" if par else "persist", **{kk: vv for kk, vv in case.items() if kk != "memmap"}}
            if opt: key["python_O"] = True
            c.nontrivial.add(json.dumps(key, sort_keys=True))
            for pb in r["problems"]:
                kind = "byte_order_normalised" if "NORMALISED" in pb else pb[:50]
                c.violation(dict(key, problem=kind), "C19: %s: %s" % ({kk: vv for kk, vv in key.items()}, pb), {})
    for cs in cases[:2] + pcases[:1]: c.sample(cs)
    c.rule = ("cases enumerated from ArrayLayout.tla: dtype (incl. big-endian, structured, mixed-endian record, S/U/V item sizes that do not divide the read chunk, "
              "datetime, object) x shape (0-d, empty, n-d, > 256 KiB) x layout (C, Fortran, strided, transposed, reversed, memmap-backed) x compressor x mmap_mode x "
              "container, with the memmap admissibility dictated by the specification (sampled); dump/load through a path and a BytesIO, dtype/shape/order/bytes "
              "compared with the original, memory maps checked for 16-byte aligned offsets; arrays just below/at/above max_nbytes passed to loky workers; distinct = case")
    c.assumptions += ["runs under python3-vt (Python 3.11, numpy 2.4) because numpy is not installed in /venv", "bit-exactness is decided by comparison with the original array"]


common.main("C19", "exploration", body)
