import os, sys, json, subprocess, shutil, random
from concurrent.futures import ThreadPoolExecutor
sys.path.insert(0, os.path.dirname(os.path.dirname(os.path.abspath(__file__))))
from checks import common
from engine import tlc

WORKER = os.path.join(common.VERIF, "harness", "tracker_worker.py")
API_WORKER = os.path.join(common.VERIF, "harness", "tracker_api_worker.py")


ALL = {"f1", "f2", "g", "d", "e", "h"}


def cfg(name, maxreq, gen=False, use=("f1", "f2", "g", "d"), clients=(1, 2), recreate=False):
    path = os.path.join(common.VERIF, "out", "cfg", "RT_%s.cfg" % name)
    k = dict(Clients=set(clients), MaxReq=maxreq, Use=set(use), Recreate=recreate)
    if gen:
        tlc.write_cfg(path, constants=k, init="Init", next="Next", constraint="Emit")
    else:
        tlc.write_cfg(path, constants=k, spec="Spec", invariants=["Inv"], properties=["DeletedOnlyWhenDue", "DeletedWhenDue"], view="View")
    return path


def run_job(args):
    base, k, hists, hook = args
    d = os.path.join(base, "w%d" % k); os.makedirs(d)
    jf = os.path.join(d, "job.json"); json.dump({"dir": d, "hists": hists, "clients": [1, 2], "hook": hook}, open(jf, "w"))
    p = subprocess.run(["/venv/bin/python", WORKER, jf], env=dict(os.environ, PYTHONPATH=os.environ.get("VERIF_REPO", "/repo"), PYTHONDONTWRITEBYTECODE="1"), capture_output=True, text=True, timeout=3000)
    if not os.path.exists(jf + ".out"): raise RuntimeError("tracker worker failed: " + p.stderr[-500:])
    r = json.load(open(jf + ".out")); shutil.rmtree(d, ignore_errors=True)
    return r


def run_api_job(args):
    base, k, hists = args
    d = os.path.join(base, "api%d" % k); os.makedirs(d)
    jf = os.path.join(d, "job.json"); json.dump({"dir": d, "hists": hists, "kill": True}, open(jf, "w"))
    p = subprocess.run(["/venv/bin/python", API_WORKER, jf], env=dict(os.environ, PYTHONPATH=os.environ.get("VERIF_REPO", "/repo"), PYTHONDONTWRITEBYTECODE="1"), capture_output=True, text=True, timeout=3000)
    if not os.path.exists(jf + ".out"): raise RuntimeError("tracker api worker failed: " + p.stderr[-500:])
    r = json.load(open(jf + ".out")); shutil.rmtree(d, ignore_errors=True)
    return r


LIFE = os.path.join(common.VERIF, "harness", "memmap_lifecycle.py")


def session_pids(sid):
    out = []
    for p in os.listdir("/proc"):
        if not p.isdigit(): continue
        try:
            st = open("/proc/%s/stat" % p).read()
            f = st[st.rindex(")") + 2:].split()
            if int(f[3]) == sid and f[0] != "Z": out.append(int(p))
        except (OSError, ValueError, IndexError):
            pass
    return out


def lifecycle_case(args):
    """one end-to-end scenario of harness/memmap_lifecycle.py; returns the list of problems"""
    import time, signal, glob
    base, k, sc, backend = args[:4]; variant = args[4] if len(args) > 4 else ""
    d = os.path.join(base, "life%d" % k); os.makedirs(d)
    jf = os.path.join(d, "spec.json"); json.dump({"dir": d, "scenario": sc, "backend": backend, "relative_temp": variant == "relative_temp"}, open(jf, "w"))
    env = dict(os.environ, PYTHONPATH=os.environ.get("VERIF_REPO", "/repo"), PYTHONDONTWRITEBYTECODE="1", JOBLIB_TEMP_FOLDER=d)
    if variant == "relative_temp": env.pop("JOBLIB_TEMP_FOLDER")
    if variant == "warn_error": env["PYTHONWARNINGS"] = "error"      # inherited by the tracker process, like -W error
    problems = []
    with open(os.path.join(d, "driver.log"), "w") as lf:
        p = subprocess.Popen(["python3-vt", LIFE, jf], env=env, stdout=lf, stderr=lf, stdin=subprocess.DEVNULL, start_new_session=True)
    sid = p.pid
    t0 = time.time()
    try:
        if sc in ("main_killed", "worker_killed"):
            while time.time() - t0 < 60 and len(glob.glob(os.path.join(d, "task_started_*"))) < 2: time.sleep(0.02)
            started = glob.glob(os.path.join(d, "task_started_*"))
            if len(started) < 2: problems.append({"kind": "harness", "what": "tasks did not start"})
            else:
                seen_folder = [f for f in os.listdir(d) if f.startswith("joblib_memmapping_folder")] + glob.glob(os.path.join(d, "cwd2", "reltmp", "joblib_memmapping_folder*"))
                if not seen_folder: problems.append({"kind": "harness", "what": "no memmapping folder while tasks run"})
                victim = p.pid if sc == "main_killed" else int(started[0].rsplit("_", 1)[1])
                os.kill(victim, signal.SIGKILL)
                time.sleep(0.3)
            open(os.path.join(d, "release"), "w").close()
        try: p.wait(90)
        except subprocess.TimeoutExpired: problems.append({"kind": "driver_hangs"}); p.kill()
        # every process that could hold a reference must be gone, then the tracker cleans up and goes too.  Idle loky workers
        # outlive a killed parent until their idle timeout (300 s): they are clients like any other - kill them ("clients
        # exiting or being killed at any point") and keep only the tracker processes
        def cmdline(x):
            try: return open("/proc/%d/cmdline" % x).read().replace("\0", " ")
            except OSError: return ""
        t1 = time.time()
        while time.time() - t1 < 8 and session_pids(sid): time.sleep(0.05)
        for x in session_pids(sid):
            if "resource_tracker import main" not in cmdline(x):
                try: os.kill(x, signal.SIGKILL)
                except OSError: pass
        t1 = time.time()
        while time.time() - t1 < 30 and session_pids(sid): time.sleep(0.05)
        left = session_pids(sid)
        if left:
            problems.append({"kind": "tracker_does_not_exit", "pids": left, "cmd": [cmdline(x)[:120] for x in left]})
            for x in left:
                try: os.kill(x, signal.SIGKILL)
                except OSError: pass
        time.sleep(0.2)
        rest = sorted([f for f in os.listdir(d) if f.startswith("joblib_memmapping_folder")] + glob.glob(os.path.join(d, "cwd2", "reltmp", "joblib_memmapping_folder*")))
        if rest:
            problems.append({"kind": "temporary_folder_left_behind", "folders": rest, "content": [os.listdir(f if os.path.isabs(f) else os.path.join(d, f))[:5] for f in rest]})
        recs = [json.loads(l) for l in open(os.path.join(d, "task_log"))] if os.path.exists(os.path.join(d, "task_log")) else []
        for r in recs:
            if not r["memmap"]: problems.append({"kind": "harness", "what": "argument was not memory-mapped"}); break
            if not (r["exists_at_start"] and r["exists_after_use"]): problems.append({"kind": "file_deleted_while_in_use", "task": r}); break
            if not r["sum_ok"]: problems.append({"kind": "wrong_values", "task": r}); break
        if sc not in ("main_killed",) and not os.path.exists(os.path.join(d, "driver_out.json")) and not problems:
            problems.append({"kind": "driver_died", "log": open(os.path.join(d, "driver.log")).read()[-300:]})
        if sc == "managed_two_calls" and os.path.exists(os.path.join(d, "driver_out.json")):
            o = json.load(open(os.path.join(d, "driver_out.json")))
            if not o.get("folders_between_calls"): problems.append({"kind": "harness", "what": "no folder between two calls of a with block"})
    finally:
        shutil.rmtree(d, ignore_errors=True)
    return sc + ("/" + variant if variant else ""), backend, len(recs) if 'recs' in dir() else 0, problems


def body(c):
    rng = random.Random(c.seed)
    c.model_check("ResourceTracker[2 clients, %d requests]" % (6 if c.quick else 7), "ResourceTracker", cfg("mc", 6 if c.quick else 7), workers=16, timeout=1500)
    c.model_check("ResourceTracker[nested folders]", "ResourceTracker", cfg("mcf", 6, use=("d", "e", "h", "g"), clients=(1,)), workers=16, timeout=1500)
    c.model_check("ResourceTracker[paths created again]", "ResourceTracker", cfg("mcr", 6, use=("g", "d"), clients=(1,), recreate=True), workers=16, timeout=1500)
    L = 3 if c.quick else 4
    r = tlc.run("ResourceTracker", cfg("gen", L, gen=True), workers=1, timeout=1500, heap="6g"); c.add_tlc("ResourceTracker-gen[L=%d]" % L, r)
    capg = 5000 if c.quick else 100000
    hists = tlc.printed_json(r, sample=capg, seed=c.seed); c.extra["sequences_exhaustive_total"] = getattr(r, "printed_total", len(hists)); r.output = ""
    r = tlc.run("ResourceTracker", cfg("genf", 4 if c.quick else 5, gen=True, use=("d", "e", "h"), clients=(1,)), workers=1, timeout=1500, heap="6g"); c.add_tlc("ResourceTracker-gen[folders]", r)
    hf = tlc.printed_json(r, sample=capg, seed=c.seed + 1); c.extra["sequences_folders_total"] = getattr(r, "printed_total", len(hf)); r.output = ""
    c.extra["sequences_folders"] = len(hf)
    # names that come back after they were deleted (a count that reached zero while the path was already gone, then a new file there)
    r = tlc.run("ResourceTracker", cfg("genr", 5 if c.quick else 6, gen=True, use=("g", "d"), clients=(1,), recreate=True), workers=1, timeout=1500, heap="6g"); c.add_tlc("ResourceTracker-gen[recreate]", r)
    hr = [h for h in tlc.printed_json(r, sample=4 * capg, seed=c.seed + 2) if any(e["cmd"] == "CREATE" for e in h)]; c.extra["sequences_recreate_total"] = getattr(r, "printed_total", len(hr)); r.output = ""
    c.extra["sequences_recreate"] = len(hr)
    if len(hr) > (3000 if c.quick else 60000): hr = rng.sample(hr, 3000 if c.quick else 60000)
    r = tlc.run("ResourceTracker", cfg("sim", 10, gen=True, use=sorted(ALL)), simulate="num=%d" % (400 if c.quick else 4000), depth=25, seed=c.seed + 11, workers=1, timeout=900)
    c.add_tlc("ResourceTracker-simulate", r)
    long = [h for h in tlc.printed_json(r) if len(h) >= 5]
    c.extra["sequences_exhaustive"] = len(hists); c.extra["sequences_simulated"] = len(long)
    cap = 5000 if c.quick else 100000
    if len(hists) > cap: hists = rng.sample(hists, cap)
    if len(hf) > cap: hf = rng.sample(hf, cap)
    allh = hists + hf + hr + long
    base = common.scratch("c20")
    nw = 14
    jobs = [(base, k, allh[k::nw], k % 2 == 0) for k in range(nw)]
    with ThreadPoolExecutor(max_workers=nw) as ex:
        results = list(ex.map(run_job, jobs))
    # the same sequences through the public client API (register / maybe_unlink / unregister of the process-wide tracker that
    # ensure_running spawns), from two real client processes; a client that goes away exits or is killed
    pool = [h for h in (hists + hf + hr + long) if len(h) >= 3]
    napi = 350 if c.quick else 12000
    apih = pool if len(pool) <= napi else rng.sample(pool, napi)
    ajobs = [(base, k, apih[k::nw]) for k in range(nw)]
    with ThreadPoolExecutor(max_workers=nw) as ex:
        ares = list(ex.map(run_api_job, ajobs))
    for (b, k, hs), res in zip(ajobs, ares):
        for h, r in zip(hs, res):
            c.evaluations += 1
            ops = [[e["c"], e["cmd"], e["x"]] for e in h]
            c.nontrivial.add("api:" + json.dumps(ops))
            for pb in r["problems"]:
                c.violation({"kind": pb["kind"], "leg": "client-api", "requests": ops, "step": pb.get("step")},
                            "C20 (client API, real client processes): %s after the request sequence %s: %s" % (pb["kind"], ops[: (pb.get("step") or len(ops)) + 1], pb), {})
    c.extra["sequences_through_client_api"] = len(apih)
    # the protocol joblib's own users follow on top of the tracker (model): parent dump/register, worker register/release,
    # clean-up after the call, forced clean-up, atexit, kill; and its sensitivity to the parent's own registration
    def trcfg(name, **k):
        pth = os.path.join(common.VERIF, "out", "cfg", "TR_%s.cfg" % name)
        consts = dict(Files={"f1", "f2"} if c.quick else {"f1", "f2", "f3"}, Workers={1, 2} if c.quick else {1, 2, 3}, ParentRegisters=True); consts.update(k)
        tlc.write_cfg(pth, constants=consts, spec="Spec", invariants=["InUseExists", "CountsMatch"], properties=["NothingLeft"])
        return pth
    c.model_check("TempResources", "TempResources", trcfg("mc"), workers=8, timeout=900)
    r = c.model_check("TempResources[parent does not register its dump]", "TempResources", trcfg("noreg", ParentRegisters=False), must_hold=False, workers=8, timeout=900)
    if r.ok: raise tlc.TLCError("TempResources lost its sensitivity: without the parent's registration a file must be deleted while a worker uses it")
    c.extra["temp_resources_sensitivity"] = "parent does not register its dump -> %s" % (r.violated,)
    # end to end: joblib's own users of the tracker (TemporaryResourcesManager, memmapping reducers) under python3-vt
    lcases = [(base, k, sc, be) for k, (sc, be) in enumerate((sc, be) for be in (("loky", "multiprocessing") if not c.quick else ("loky",))
              for sc in ("plain", "managed_two_calls", "task_fails", "main_killed", "worker_killed", "generator_abandoned", "generator_alive_at_exit")
              if not (be == "multiprocessing" and sc in ("worker_killed", "generator_abandoned", "generator_alive_at_exit")))]
    nl = len(lcases)
    lcases += [(base, nl + k, sc, "loky", var) for k, (sc, var) in enumerate([("main_killed", "relative_temp"), ("generator_alive_at_exit", "relative_temp"),
                                                                               ("main_killed", "warn_error"), ("generator_alive_at_exit", "warn_error")])]
    with ThreadPoolExecutor(max_workers=4) as ex:
        lres = list(ex.map(lifecycle_case, lcases))
    for sc, be, ntasks, pbs in lres:
        c.evaluations += 1; c.nontrivial.add("lifecycle:%s:%s" % (sc, be))
        for pb in pbs:
            if pb["kind"] == "harness": raise RuntimeError("lifecycle harness: %s %s %s" % (sc, be, pb))
            c.violation({"kind": pb["kind"], "leg": "memmapping-lifecycle", "scenario": sc, "backend": be},
                        "C20 (temporary memmapping resources, %s backend, scenario %s): %s" % (be, sc, pb), {})
    c.extra["lifecycle_scenarios"] = [[sc, be, n] for sc, be, n, _ in lres]
    shutil.rmtree(base, ignore_errors=True)
    synced = 0; cm = 0; hooked = 0
    for (b, k, hs, hook), res in zip(jobs, results):
        for h, r in zip(hs, res):
            c.evaluations += 1; synced += r["synced"]
            ops = [[e["c"], e["cmd"], e["x"]] for e in h]
            c.nontrivial.add(json.dumps(ops))
            cm += r.get("count_mismatch", 0); hooked += 1 if "hook_events" in r else 0
            for pb in r["problems"]:
                c.violation({"kind": pb["kind"], "requests": ops, "step": pb.get("step")}, "C20: %s after the request sequence %s: %s" % (pb["kind"], ops[: (pb.get("step") or len(ops)) + 1], pb), {})
    c.traces_validated = c.evaluations
    c.extra["synced_requests"] = synced; c.extra["sequences_with_hook_trace"] = hooked; c.extra["reference_count_mismatches_vs_model"] = cm
    c.drift += cm
    for h in allh[:: max(1, len(allh) // 3)][:3]: c.sample([[e["c"], e["cmd"], e["x"]] for e in h])
    c.rule = ("every request sequence of length <= %d of ResourceTracker.tla (2 clients; REGISTER / MAYBE_UNLINK / UNREGISTER / malformed, empty or blank line / re-creation of a deleted path on 2 files, a folder and "
              "a file inside it; client gone; end of all clients) plus TLC-simulated sequences up to 10 requests, sent verbatim to a real resource_tracker.main on a "
              "private pipe; after every request (sentinel barrier) the set of existing paths must be the model's, the tracker must be alive, and after the "
              "last client is gone exactly the still-registered paths disappear; with the hook on, reference counts are compared too (drift); a sample of the sequences is also replayed through the public client API "
              "(resource_tracker.register / maybe_unlink / unregister, tracker spawned by ensure_running) from two real client processes, one of which exits or is killed; distinct = sequence" % L)
    c.exhaustive = True
    c.assumptions += ["clients are write ends of the pipe held by the driver (a killed client = its descriptor closed by the kernel)"]


common.main("C20", "model_checking", body)
