import os, sys, json, subprocess, shutil, random
from concurrent.futures import ThreadPoolExecutor
sys.path.insert(0, os.path.dirname(os.path.dirname(os.path.abspath(__file__))))
from checks import common
from engine import tlc

WORKER = os.path.join(common.VERIF, "harness", "tracker_worker.py")


ALL = {"f1", "f2", "g", "d", "e", "h"}


def cfg(name, maxreq, gen=False, use=("f1", "f2", "g", "d"), clients=(1, 2), recreate=False):
    path = os.path.join(common.VERIF, "out", "cfg", "RT_%s.cfg" % name)
    k = dict(Clients=set(clients), MaxReq=maxreq, Use=set(use), Recreate=recreate)
    if gen:
        tlc.write_cfg(path, constants=k, init="Init", next="Next", constraint="Emit")
    else:
        tlc.write_cfg(path, constants=k, spec="Spec", invariants=["Inv"], properties=["DeletedOnlyWhenDue", "DeletedWhenDue"], view="View")
    return path


def run_job(args):
    base, k, hists, hook = args
    d = os.path.join(base, "w%d" % k); os.makedirs(d)
    jf = os.path.join(d, "job.json"); json.dump({"dir": d, "hists": hists, "clients": [1, 2], "hook": hook}, open(jf, "w"))
    p = subprocess.run(["/venv/bin/python", WORKER, jf], env=dict(os.environ, PYTHONPATH=os.environ.get("VERIF_REPO", "/repo"), PYTHONDONTWRITEBYTECODE="1"), capture_output=True, text=True, timeout=3000)
    if not os.path.exists(jf + ".out"): raise RuntimeError("tracker worker failed: " + p.stderr[-500:])
    r = json.load(open(jf + ".out")); shutil.rmtree(d, ignore_errors=True)
    return r


def body(c):
    rng = random.Random(c.seed)
    c.model_check("ResourceTracker[2 clients, %d requests]" % (6 if c.quick else 7), "ResourceTracker", cfg("mc", 6 if c.quick else 7), workers=16, timeout=1500)
    c.model_check("ResourceTracker[nested folders]", "ResourceTracker", cfg("mcf", 6, use=("d", "e", "h", "g"), clients=(1,)), workers=16, timeout=1500)
    c.model_check("ResourceTracker[paths created again]", "ResourceTracker", cfg("mcr", 6, use=("g", "d"), clients=(1,), recreate=True), workers=16, timeout=1500)
    L = 3 if c.quick else 4
    r = tlc.run("ResourceTracker", cfg("gen", L, gen=True), workers=1, timeout=1500, heap="6g"); c.add_tlc("ResourceTracker-gen[L=%d]" % L, r)
    hists = tlc.printed_json(r)
    r = tlc.run("ResourceTracker", cfg("genf", 4 if c.quick else 5, gen=True, use=("d", "e", "h"), clients=(1,)), workers=1, timeout=1500, heap="6g"); c.add_tlc("ResourceTracker-gen[folders]", r)
    hf = tlc.printed_json(r)
    c.extra["sequences_folders"] = len(hf)
    # names that come back after they were deleted (a count that reached zero while the path was already gone, then a new file there)
    r = tlc.run("ResourceTracker", cfg("genr", 5 if c.quick else 6, gen=True, use=("g", "d"), clients=(1,), recreate=True), workers=1, timeout=1500, heap="6g"); c.add_tlc("ResourceTracker-gen[recreate]", r)
    hr = [h for h in tlc.printed_json(r) if any(e["cmd"] == "CREATE" for e in h)]
    c.extra["sequences_recreate"] = len(hr)
    if len(hr) > (3000 if c.quick else 60000): hr = rng.sample(hr, 3000 if c.quick else 60000)
    r = tlc.run("ResourceTracker", cfg("sim", 10, gen=True, use=sorted(ALL)), simulate="num=%d" % (400 if c.quick else 4000), depth=25, seed=c.seed + 11, workers=1, timeout=900)
    c.add_tlc("ResourceTracker-simulate", r)
    long = [h for h in tlc.printed_json(r) if len(h) >= 5]
    c.extra["sequences_exhaustive"] = len(hists); c.extra["sequences_simulated"] = len(long)
    cap = 5000 if c.quick else 100000
    if len(hists) > cap: hists = rng.sample(hists, cap)
    if len(hf) > cap: hf = rng.sample(hf, cap)
    allh = hists + hf + hr + long
    base = common.scratch("c20")
    nw = 14
    jobs = [(base, k, allh[k::nw], k % 2 == 0) for k in range(nw)]
    with ThreadPoolExecutor(max_workers=nw) as ex:
        results = list(ex.map(run_job, jobs))
    shutil.rmtree(base, ignore_errors=True)
    synced = 0; cm = 0; hooked = 0
    for (b, k, hs, hook), res in zip(jobs, results):
        for h, r in zip(hs, res):
            c.evaluations += 1; synced += r["synced"]
            ops = [[e["c"], e["cmd"], e["x"]] for e in h]
            c.nontrivial.add(json.dumps(ops))
            cm += r.get("count_mismatch", 0); hooked += 1 if "hook_events" in r else 0
            for pb in r["problems"]:
                c.violation({"kind": pb["kind"], "requests": ops, "step": pb.get("step")}, "C20: %s after the request sequence %s: %s" % (pb["kind"], ops[: (pb.get("step") or len(ops)) + 1], pb), {})
    c.traces_validated = c.evaluations
    c.extra["synced_requests"] = synced; c.extra["sequences_with_hook_trace"] = hooked; c.extra["reference_count_mismatches_vs_model"] = cm
    c.drift += cm
    for h in allh[:: max(1, len(allh) // 3)][:3]: c.sample([[e["c"], e["cmd"], e["x"]] for e in h])
    c.rule = ("every request sequence of length <= %d of ResourceTracker.tla (2 clients; REGISTER / MAYBE_UNLINK / UNREGISTER / malformed, empty or blank line / re-creation of a deleted path on 2 files, a folder and "
              "a file inside it; client gone; end of all clients) plus TLC-simulated sequences up to 10 requests, sent verbatim to a real resource_tracker.main on a "
              "private pipe; after every request (sentinel barrier) the set of existing paths must be the model's, the tracker must be alive, and after the "
              "last client is gone exactly the still-registered paths disappear; with the hook on, reference counts are compared too (drift); distinct = sequence" % L)
    c.exhaustive = True
    c.assumptions += ["clients are write ends of the pipe held by the driver (a killed client = its descriptor closed by the kernel)"]


common.main("C20", "model_checking", body)
