import os, sys
sys.path.insert(0, os.path.dirname(os.path.dirname(os.path.abspath(__file__))))
from checks import common, pfamily, pscen, pmodel
from engine import tlc


def body(c):
    # 1. the implementation-shaped model, model-checked
    sens = []
    for m in pscen.models("C01", c.quick):
        name, must_hold, live, over = m[:4]
        invs = m[4] if len(m) > 4 else pmodel.INVS
        r = c.model_check("ParallelDesign[%s]" % name, "ParallelDesign", pmodel.cfg("C01_" + name, invariants=invs, liveness=live, **over),
                          must_hold=must_hold, workers=16, timeout=1500)
        if not must_hold:
            if r.ok:
                raise tlc.TLCError("model lost its sensitivity: configuration %s (a repair switched off) no longer yields a counterexample" % name)
            sens.append("%s -> %s %s" % (name, r.violated[0], r.violated[1]))
    # the auto-batching controller (batch sizes of batch_size='auto'): never below 1, at most doubling, estimate reset on change
    import os as _os
    for nm, durs, ms, fix in (("fast/ideal/slow", {1, 400, 3000}, 16, True), ("fast/slower/slow", {1, 20, 3000}, 32, True), ("clamp_off", {1, 20, 400, 3000}, 4096, False)):
        if c.quick and nm == "fast/slower/slow": continue
        pth = _os.path.join(common.VERIF, "out", "cfg", "AUTO_%s.cfg" % nm.replace("/", "_"))
        tlc.write_cfg(pth, constants=dict(Durations=durs, MaxSize=ms, FixClamp=fix), spec="Spec", invariants=["SizeAtLeastOne", "ResetOnChange"], properties=["GrowthBounded"], constraint="Bounded")
        r = c.model_check("AutoBatch[%s]" % nm, "AutoBatch", pth, must_hold=fix, workers=8, timeout=600)
        if not fix:
            if r.ok: raise tlc.TLCError("AutoBatch lost its sensitivity: without the lower clamp the batch size must be able to reach 0")
            sens.append("AutoBatch clamp_off -> %s %s" % r.violated)
    c.extra["model_sensitivity"] = sens
    # 2. code -> design model (conformance, drift) and design model -> code (replay of simulated behaviours)
    conf, gcfgs = pscen.conformance("C01", c.quick)
    pfamily.design_conformance(c, conf, seed=c.seed)
    tg, mg = pfamily.model_guided(c, gcfgs, num=(25 if c.quick else 300), seed=c.seed)
    pfamily.account(c, tg, mg)
    pfamily.validate(c, tg, mg, "C01", label="L1-model-guided")
    # 3. exploration of the real code, judged by the abstract spec
    S = pscen.c01(c.quick)
    traces, meta = pfamily.explore(S, seed=c.seed, workers=12)
    pfamily.account(c, traces, meta)
    pfamily.validate(c, traces, meta, "C01")
    pfamily.validator_sensitivity(c, traces)        # binding demonstration: corrupted recordings must be rejected
    pfamily.protocol(c, meta, "C01")
    S2 = pscen.l2("C01", c.quick)
    t2, m2 = pfamily.explore_l2(S2, seed=c.seed, workers=12)
    pfamily.account(c, t2, m2)
    pfamily.validate(c, t2, m2, "C01", label="L2")
    c.extra["l2_scenarios"] = len(S2); c.extra["l2_executions"] = len(t2)
    c.extra["l2_not_finished"] = sum(1 for m in m2 if m["status"] != "finished")
    base3 = common.scratch("c01_l3")
    t3, m3 = pfamily.explore_l3(pscen.l3("C01", c.quick), base3)
    import shutil; shutil.rmtree(base3, ignore_errors=True)
    pfamily.account(c, t3, m3)
    pfamily.validate(c, t3, m3, "C01", label="L3")
    c.extra["l3_runs"] = len(t3)
    c.extra["scenarios"] = len(S)
    c.rule = ("executions of the real joblib.Parallel under the single-thread controlled backend (L1): stateless DFS / seeded "
              "random walks over completion order x placement of each completion callback relative to the caller's critical "
              "sections and polls x consumer decisions; non-trivial = distinct (configuration, schedule) with at least one "
              "completion delivered at a non-default point")
    c.rule += ("; L2: seeded schedules of real threads (caller + serial or concurrent callback threads) under a hand-off scheduler "
               "with yield points at lock acquire/release, inside the input iterator, in submit, at polls; L3: the built-in threading / loky / "
               "multiprocessing backends with gate files opened in a scripted completion order, events totally ordered by O_APPEND writes to one log")
    c.assumptions += ["L1: callbacks are atomic w.r.t. the caller; L2: pre-emption only at the listed yield points",
                      "backend behaves like the documented extension API (ControlledBackend)"]


common.main("C01", "model_checking", body)
