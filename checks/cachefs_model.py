"""TLC runs of specs/CacheFS.tla (through MCFS.tla) for C05 (crash/recovery) and C11 (concurrency)."""
import os, sys
VERIF = os.path.dirname(os.path.dirname(os.path.abspath(__file__)))
if VERIF not in sys.path: sys.path.insert(0, VERIF)
from engine import tlc


def cfg(name, ops, vers, keys, crash=0, sequential=False, validate=False, known=(), fix=(True, True, True, True), warm=(),
        invariants=("FinalNameComplete", "CallsCorrectModulo")):
    n = len(ops)
    lines = ["CONSTANTS", "  Procs = {%s}" % ", ".join(str(i + 1) for i in range(n)), "  Op <- Op%s" % ops, "  Ver <- Ver%s" % vers,
             "  Key <- Key%s" % keys, '  Keys = {"a", "b"}', "  CrashProc = %d" % crash, "  Sequential = %s" % tlc.tla(sequential),
             "  Validate = %s" % tlc.tla(validate), "  KnownKinds = %s" % tlc.tla(set(known)),
             "  FixD5a = %s" % tlc.tla(fix[0]), "  FixD5b = %s" % tlc.tla(fix[1]), "  FixD10 = %s" % tlc.tla(fix[2]), "  FixD5c = %s" % tlc.tla(fix[3]),
             "  WarmKeys = %s" % tlc.tla(set(warm)), "INIT InitW", "NEXT Next2"] + ["INVARIANT " + i for i in invariants] + ["CHECK_DEADLOCK FALSE"]
    path = os.path.join(VERIF, "out", "cfg", "FS_%s.cfg" % name)
    os.makedirs(os.path.dirname(path), exist_ok=True)
    open(path, "w").write("\n".join(lines) + "\n")
    return path


def crash_states(c, name, **kw):
    """all (ex, ct) the model can be left in when process 1 crashes (snapshots, as canonical JSON strings)"""
    import json
    path = cfg("cs_" + name, invariants=(), **kw)
    txt = open(path).read().replace("CHECK_DEADLOCK", "CONSTRAINT EmitCrash\nCHECK_DEADLOCK")
    open(path, "w").write(txt)
    r = tlc.run("MCFS", path, workers=1, timeout=600)
    c.add_tlc("CacheFS-crash-states[%s]" % name, r)
    out = set()
    for st in tlc.printed_json(r):
        out.add(canon(st["ex"], st["ct"]))
    return out


def final_states(c, name, **kw):
    """all (ex, ct) the model can end in when every participant has finished"""
    path = cfg("fs_" + name, invariants=(), **kw)
    txt = open(path).read().replace("CHECK_DEADLOCK", "CONSTRAINT EmitFinal\nCHECK_DEADLOCK")
    open(path, "w").write(txt)
    r = tlc.run("MCFS", path, workers=1, timeout=900, heap="6g")
    c.add_tlc("CacheFS-final-states[%s]" % name, r)
    return {canon(st["ex"], st["ct"]) for st in tlc.printed_json(r)}


def final_states_and_steps(c, name, **kw):
    """final states (as final_states) and the step relation of the model: {(state, next state)} over the transitions that change
    the directory, owners of temporary files dropped"""
    import json
    path = cfg("fs_" + name, invariants=(), **kw)
    txt = open(path).read().replace("CHECK_DEADLOCK", "CONSTRAINT EmitFinal\nACTION_CONSTRAINT StepRel\nPOSTCONDITION PrintRel\nCHECK_DEADLOCK")
    open(path, "w").write(txt)
    r = tlc.run("MCFS", path, workers=1, timeout=900, heap="6g")
    c.add_tlc("CacheFS-final-states+steps[%s]" % name, r)
    finals = set(); rel = set()
    for st in tlc.printed_json(r):
        if isinstance(st, dict): finals.add(canon(st["ex"], st["ct"]))
        else:
            for a, b in st: rel.add((canon(a["ex"], a["ct"]), canon(b["ex"], b["ct"])))
    return finals, rel


def snapshot(root, keymap, code_texts, owners=True, memo=None):
    """classify the function directory of a real cache in the vocabulary of CacheFS.tla (arguments of f -> model keys)"""
    import os, json, joblib
    fdir = os.path.join(root, "joblib", "cachedmod", "f")
    ex = []; ct = []
    if not os.path.isdir(fdir): return canon([], [])
    ex.append(["F"])
    cp = os.path.join(fdir, "func_code.py")
    if os.path.exists(cp):
        txt = open(cp, "rb").read(); ex.append(["F", "code"])
        v = [k for k, t in code_texts.items() if t == txt]
        ct.append([["F", "code"], ["code", v[0]] if v else ["empty"] if not txt else ["partial"]])
    byname = {joblib.hash({"x": a, "y": 0}): kk for a, kk in keymap.items()}
    for name in sorted(os.listdir(fdir)):
        d = os.path.join(fdir, name)
        if not os.path.isdir(d): continue
        key = byname.get(name, "?" + name[:4])
        ex.append(["F", key])
        for fn in os.listdir(d):
            fp = os.path.join(d, fn)
            if not fn.startswith(("output.pkl", "metadata.json")): continue
            try: data = open(fp, "rb").read()
            except OSError: continue                    # (removed while we were looking)
            mk = (fn[:6], data)
            if memo is not None and mk in memo: cls = memo[mk]
            else:
                if fn.startswith("output.pkl"):
                    try:
                        import io
                        val = joblib.load(io.BytesIO(data)); cls = ["val", int(val[0][1:]), keymap[val[1]]]
                    except Exception:
                        cls = ["partial"]
                else:
                    try:
                        json.loads(data.decode()); cls = ["meta"]
                    except Exception:
                        cls = ["partial"]
                if memo is not None: memo[mk] = cls
            kind = "out" if fn == "output.pkl" else "metaf" if fn == "metadata.json" else "tmpo" if fn.startswith("output.pkl") else "tmpm"
            pth = ["F", key, kind + ("1" if kind.startswith("tmp") and owners else "")]
            ex.append(pth); ct.append([pth, cls])
    return canon(ex, ct)


def canon(ex, ct):
    import json
    cts = sorted({json.dumps(["/".join(map(str, x)), list(v)]) for x, v in ct})
    return json.dumps([sorted({"/".join(map(str, x)) for x in ex}), [json.loads(t) for t in cts]])


def run(c, name, must_hold=True, **kw):
    return c.model_check("CacheFS[%s]" % name, "MCFS", cfg(name, **kw), must_hold=must_hold, workers=16, timeout=1500)


def run_c05(c):
    """crash at any step of process 1 (incl. torn in-place write of the source), then a fresh call (process 2, 3)"""
    sens = []
    for validate in (False, True):
        v = "v" if validate else "n"
        run(c, "crash_same_" + v, ops="CC", vers="11", keys="AA", crash=1, sequential=True, validate=validate)
        run(c, "crash_otherkey_" + v, ops="CC", vers="11", keys="AB", crash=1, sequential=True, validate=validate)
        run(c, "crash_reduce_" + v, ops="CRC", vers="111", keys="AAA", crash=2, sequential=True, validate=validate)
        run(c, "crash_clear_" + v, ops="CLC", vers="111", keys="AAA", crash=2, sequential=True, validate=validate)
    # source change: process 1 (v1) fills the cache, process 2 (v2) crashes anywhere, process 3 (v2) recovers.
    # The stale-entry outcome (crash inside clear() after the stored source is gone) is the open finding D5c:
    # masked here, and demonstrated below.
    run(c, "crash_srcchange3", ops="CCC", vers="122", keys="BAB", crash=2, sequential=True)
    run(c, "crash_srcchange4", ops="CCCC", vers="1222", keys="BAAB", crash=2, sequential=True)
    r = run(c, "D5c_off", must_hold=False, fix=(True, True, True, False), ops="CCCC", vers="1222", keys="BAAB", crash=2, sequential=True)
    if r.ok: raise tlc.TLCError("CacheFS lost its sensitivity: D5c switched off yields no counterexample")
    sens.append("D5c_off -> %s" % (r.violated,))
    if not c.quick:
        for nm, fx, kw in [("D5a_off", (False, True, True, True), dict(ops="CC", vers="11", keys="AA", crash=1, sequential=True, validate=True)),
                           ("D5b_off", (True, False, True, True), dict(ops="CC", vers="11", keys="AA", crash=1, sequential=True))]:
            r = run(c, nm, must_hold=False, fix=fx, **kw)
            if r.ok: raise tlc.TLCError("CacheFS lost its sensitivity: %s yields no counterexample" % nm)
            sens.append("%s -> %s" % (nm, r.violated))
    c.extra["model_sensitivity"] = sens


def run_c11(c):
    sens = []
    run(c, "call_call_same", ops="CC", vers="11", keys="AA")
    run(c, "call_call_diff", ops="CC", vers="11", keys="AB")
    run(c, "call_reduce", ops="CR", vers="11", keys="AA")
    run(c, "call_clear", ops="CL", vers="11", keys="AA")
    run(c, "warm_call_reduce", ops="CR", vers="11", keys="AA", warm=("a", "b"))
    run(c, "warm_call_clear", ops="CL", vers="11", keys="AA", warm=("a", "b"))
    run(c, "warm_call_call_reduce", ops="CCR", vers="111", keys="ABA", warm=("a",))
    run(c, "call_call_reduce", ops="CCR", vers="111", keys="AAA")
    if not c.quick:
        run(c, "call_call_clear", ops="CCL", vers="111", keys="AAA")
        run(c, "call_call_clear_ab", ops="CCL", vers="111", keys="ABA")
        run(c, "call_call_call", ops="CCC", vers="111", keys="AAB")
        run(c, "call_reduce_clear", ops="CRL", vers="111", keys="AAA")
    r = run(c, "D10_off", must_hold=False, fix=(True, True, False, True), ops="CL", vers="11", keys="AA")
    if r.ok: raise tlc.TLCError("CacheFS lost its sensitivity: D10 switched off yields no counterexample")
    sens.append("D10_off -> %s" % (r.violated,))
    c.extra["model_sensitivity"] = sens
