import os, sys, json, subprocess, shutil, random, itertools
from concurrent.futures import ThreadPoolExecutor
sys.path.insert(0, os.path.dirname(os.path.dirname(os.path.abspath(__file__))))
from checks import common
from engine import tlc

DRIVER = os.path.join(common.VERIF, "harness", "loky_faults.py")


def model(c):
    def run(name, must_hold=True, **k):
        consts = dict(W={1, 2}, NT=3, Calls=2, Kills=1, SpawnFirst=True, FlagFirst=True, ExitKnown=True, Patience=True, Parents=set(), KillsSelf=True); consts.update(k)
        p = os.path.join(common.VERIF, "out", "cfg", "LK_%s.cfg" % name)
        tlc.write_cfg(p, constants=consts, spec="Spec", invariants=["AtMostOneFailurePerKill"], properties=["NoHang", "NoPartialResults", "FailsOnlyOnFault"])
        return c.model_check("LokyExecutor[%s]" % name, "LokyExecutor", p, must_hold=must_hold, workers=8, timeout=900)
    run("2workers_3tasks_1kill")
    run("2kills_3calls", Kills=2, Calls=3)
    run("single_task_3calls", NT=1, Calls=3)
    if not c.quick:
        run("3workers_2kills", W={1, 2, 3}, Kills=2)
        run("3kills_4calls", Kills=3, Calls=4, NT=2)
    run("exit_status_never_available", ExitKnown=False, Kills=2, Calls=3, NT=2)
    run("workers_with_children", Parents={1, 2}, Kills=2, Calls=3, NT=2)
    r = run("manager_started_before_spawn", must_hold=False, NT=1, SpawnFirst=False)
    if r.ok: raise tlc.TLCError("LokyExecutor lost its sensitivity: starting the manager thread before spawning the workers must hang")
    r2 = run("pending_failed_before_flag", must_hold=False, FlagFirst=False)
    if r2.ok: raise tlc.TLCError("LokyExecutor lost its sensitivity: failing the pending work items before flagging the executor as broken must hang")
    r3 = run("unbounded_wait_for_exit_status", must_hold=False, ExitKnown=False, Patience=False)
    if r3.ok: raise tlc.TLCError("LokyExecutor lost its sensitivity: waiting without bound for an exit status that never comes must hang")
    r4 = run("kill_tree_spares_the_parent", must_hold=False, Parents={1}, KillsSelf=False)
    if r4.ok: raise tlc.TLCError("LokyExecutor lost its sensitivity: a kill_process_tree that spares a worker with children must hang (join)")
    c.extra["model_sensitivity_env"] = ["exit status never available and no bound on the wait -> %s" % (r3.violated,), "kill tree spares a worker that has children -> %s" % (r4.violated,)]
    c.extra["model_sensitivity"] = ["manager thread started before the workers are spawned -> %s" % (r.violated,),
                                    "pending work items failed before the executor is flagged as broken -> %s" % (r2.violated,)]


def run_scenario(args):
    base, k, sc = args
    d = os.path.join(base, "s%d" % k); os.makedirs(d)
    jf = os.path.join(d, "sc.json"); json.dump(dict(sc, dir=d), open(jf, "w"))
    env = dict(os.environ, PYTHONPATH=os.environ.get("VERIF_REPO", "/repo"), PYTHONDONTWRITEBYTECODE="1", JOBLIB_TEMP_FOLDER=d)
    # output goes to a file: loky workers inherit the descriptors and would keep a pipe open long after the driver is gone
    with open(os.path.join(d, "driver.log"), "w") as lf:
        try:
            subprocess.run(["/venv/bin/python", "-X", "faulthandler", DRIVER, jf], env=env, stdout=lf, stderr=lf, stdin=subprocess.DEVNULL, timeout=200)
            err = ""
        except subprocess.TimeoutExpired:
            err = "driver timeout"
    if not os.path.exists(jf + ".out"):
        err += open(os.path.join(d, "driver.log")).read()[-400:]
    r = json.load(open(jf + ".out")) if os.path.exists(jf + ".out") else {"error": err}
    subprocess.run(["pkill", "-9", "-f", d + "/"])      # (the trailing slash keeps sibling directories w1 / w10 apart)
    shutil.rmtree(d, ignore_errors=True)
    return r


def body(c):
    model(c)
    stages = ["task_start", "mid_task", "arg_unpickle", "result_pickle", "sending", "idle", "cold_single"]
    S = []
    if c.quick:
        for st in stages:
            for sg in (("KILL", "TERM", "exit", "RT") if st in ("task_start",) else ("KILL", "RT", "SEGV") if st in ("mid_task", "cold_single") else ("KILL", "SEGV", "exit") if st in ("arg_unpickle", "result_pickle") else ("KILL", "TERM")):
                for m in (False, True):
                    S.append(dict(stage=st, signal=sg, victims=1, managed=m))
        S += [dict(stage="startup", signal="KILL", victims=1, managed=m, delay=dl) for m in (False, True) for dl in (0.0, 0.002, 0.01)]
        S += [dict(stage="big_args", signal="KILL", victims=1, managed=False), dict(stage="big_args", signal="exit", victims=1, managed=True),
              dict(stage="big_args", signal="SEGV", victims=2, managed=False), dict(stage="big_args", signal="TERM", victims=1, managed=True)]
        S += [dict(stage="idle_flag_window", signal="KILL", victims=1, managed=False), dict(stage="idle_flag_window", signal="KILL", victims=1, managed=True),
              dict(stage="task_start", signal="TERM", victims=2, managed=True), dict(stage="idle", signal="KILL", victims=2, managed=True),
              dict(stage="mid_task", signal="SEGV", victims=2, managed=False)]
        # a surviving worker has child processes of its own; the process cannot collect its children's exit status
        S += [dict(stage="has_child", signal="KILL", victims=1, managed=False), dict(stage="has_nested", signal="KILL", victims=1, managed=True),
              dict(stage="task_start", signal="KILL", victims=1, managed=False, sigchld="ign"), dict(stage="mid_task", signal="SEGV", victims=1, managed=True, sigchld="ign"),
              dict(stage="task_start", signal="exit", victims=1, managed=True, sigchld="reaper"), dict(stage="idle", signal="KILL", victims=1, managed=False, sigchld="reaper")]
    else:
        S += [dict(stage=st, signal=sg, victims=1, managed=m) for st in ("has_child", "has_nested") for sg in ("KILL", "TERM", "SEGV", "exit") for m in (False, True)]
        S += [dict(stage=st, signal=sg, victims=1, managed=m, sigchld=sc) for sc in ("ign", "reaper") for st in ("task_start", "mid_task", "result_pickle", "idle", "cold_single", "has_child")
              for sg in (("KILL", "SEGV") if st != "result_pickle" else ("KILL", "exit")) for m in (False, True)]
        S += [dict(stage="idle_flag_window", signal=sg, victims=v, managed=m) for sg in ("KILL", "TERM") for v in (1, 2) for m in (False, True)]
        S += [dict(stage="big_args", signal=sg, victims=v, managed=m) for sg in ("KILL", "TERM", "SEGV", "exit") for v in (1, 2) for m in (False, True)]
        S += [dict(stage="startup", signal=sg, victims=v, managed=m, delay=dl) for sg in ("KILL", "SEGV") for v in (1, 2) for m in (False, True) for dl in (0.0, 0.001, 0.003, 0.01, 0.03)]
        for st in stages:
            for sg in ("KILL", "TERM", "SEGV", "exit", "RT"):
                if sg == "exit" and st in ("mid_task", "sending", "idle", "cold_single"): continue
                for v in ((1, 2) if st not in ("arg_unpickle", "cold_single") else (1,)):
                    for m in (False, True):
                        S.append(dict(stage=st, signal=sg, victims=v, managed=m))
    base = common.scratch("c10")
    with ThreadPoolExecutor(max_workers=5) as ex:
        results = list(ex.map(run_scenario, [(base, k, sc) for k, sc in enumerate(S)]))
    shutil.rmtree(base, ignore_errors=True)
    for sc, r in zip(S, results):
        c.evaluations += 1; c.nontrivial.add(json.dumps(sc, sort_keys=True))
        key = dict(sc)
        if "error" in r:
            c.violation(dict(key, problem="driver"), "C10: scenario %s: driver did not finish (%s)" % (sc, r["error"]), {}); continue
        calls = {x["name"]: x for x in r["calls"]}
        c.sample({"scenario": sc, "calls": [{k: v for k, v in x.items() if k in ("name", "outcome", "seconds", "correct")} for x in r["calls"]]}, cap=5)
        for x in r["calls"]:
            if x["outcome"] == "HANG":
                c.violation(dict(key, problem="hang", call=x["name"]), "C10: %s: call %s hangs (no outcome after %ss)" % (sc, x["name"], x["seconds"]), {})
            elif x["outcome"].startswith("other"):
                c.violation(dict(key, problem="wrong_error", call=x["name"], outcome=x["outcome"]), "C10: %s: call %s raised %s (%s) instead of a worker-termination error" % (sc, x["name"], x["outcome"], x.get("msg")), {})
            elif x["outcome"] == "ok" and not x.get("correct"):
                c.violation(dict(key, problem="wrong_results", call=x["name"]), "C10: %s: call %s returned partial or wrong results" % (sc, x["name"]), {})
        b = calls.get("B")
        if b and b["outcome"] == "ok" and sc["stage"] not in ("idle", "idle_flag_window", "startup"):
            c.violation(dict(key, problem="fault_not_reported"), "C10: %s: the call during which the worker died returned normally" % (sc,), {})
        nfail = sum(1 for x in r["calls"] if x["outcome"] == "terminated")
        if nfail > 1:
            c.violation(dict(key, problem="more_than_one_call_fails", failed=[x["name"] for x in r["calls"] if x["outcome"] == "terminated"]),
                        "C10: %s: %d calls fail for one fault" % (sc, nfail), {})
        if b and b["outcome"] == "terminated" and b["seconds"] > 20:
            c.violation(dict(key, problem="not_prompt", seconds=b["seconds"]), "C10: %s: the error came after %.1fs" % (sc, b["seconds"]), {})
        for nm in ("C", "D"):
            x = calls.get(nm)
            # (a worker identity = pid + start time; only kills that were over a quarter of a second before the call began count: the
            # kill of the 'startup' stage is sent by a timer and may land after the short call it was aimed at)
            if x and x["outcome"] == "ok" and any(who in x.get("pids", []) and x.get("t0", 0) > tk + 0.25 for who, tk in r.get("killed", [])):
                c.violation(dict(key, problem="dead_pid_reused", call=nm), "C10: results claim to come from killed workers", {})
    c.traces_validated = len(S)
    c.rule = ("fault scenarios on the real loky backend, one driver process each: stage of the victim's life cycle (task start, mid-task external kill, argument "
              "unpickling, result pickling, while sending a 60 MB result, with 2 MiB task arguments all dispatched at once (feeder thread blocked on the call pipe), idle between calls, during the start-up of the next call (kill 0-30 ms after the call began), idle with the manager thread pre-empted just before it flags the executor as broken while the next call submits, single-batch call on a cold executor) while a surviving worker has child processes of its own (a helper subprocess, the workers of a nested loky call)) x signal (SIGKILL, SIGTERM, "
              "SIGSEGV, os._exit, real-time signal) x SIGCHLD disposition (default, ignored, a thread reaping every child) x victims (1, 2) x with/without a with-block; each scenario = calls A (healthy), B (fault), C (same object), "
              "D (new object); distinct = scenario")
    c.assumptions += ["watchdog 40 s per call (normal < 2 s)", "the 'while sending' stage is timing dependent (kill 50 ms after the task announced its return)"]


common.main("C10", "fault_enumeration", body)
