import os, sys
sys.path.insert(0, os.path.dirname(os.path.dirname(os.path.abspath(__file__))))
from checks import common, pfamily, pscen


def body(c):
    S = pscen.c16(c.quick)
    traces, meta = pfamily.explore(S, seed=c.seed, workers=12)
    pfamily.account(c, traces, meta)
    pfamily.validate(c, traces, meta, "C16")
    c.extra["scenarios"] = len(S)
    c.rule = ("executions of the real joblib.Parallel under the single-thread controlled backend (L1): stateless DFS / seeded "
              "random walks over completion order x placement of each completion callback relative to the caller's critical "
              "sections and polls x consumer decisions; non-trivial = distinct (configuration, schedule) with at least one "
              "completion delivered at a non-default point")
    c.assumptions += ["callbacks are atomic w.r.t. the caller in the L1 driver (L2/L3 drivers lift this)",
                      "backend behaves like the documented extension API (ControlledBackend)"]


common.main("C16", "model_checking", body)
