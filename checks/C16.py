import os, sys
sys.path.insert(0, os.path.dirname(os.path.dirname(os.path.abspath(__file__))))
from checks import common, pfamily, pscen


def body(c):
    S = pscen.c16(c.quick)
    traces, meta = pfamily.explore(S, seed=c.seed, workers=12)
    pfamily.account(c, traces, meta)
    pfamily.validate(c, traces, meta, "C16")
    S2 = pscen.l2("C16", c.quick)
    t2, m2 = pfamily.explore_l2(S2, seed=c.seed, workers=12)
    pfamily.account(c, t2, m2)
    pfamily.validate(c, t2, m2, "C16", label="L2")
    c.extra["l2_scenarios"] = len(S2); c.extra["l2_executions"] = len(t2)
    c.extra["l2_not_finished"] = sum(1 for m in m2 if m["status"] != "finished")
    c.extra["scenarios"] = len(S)
    c.rule = ("executions of the real joblib.Parallel under the single-thread controlled backend (L1): stateless DFS / seeded "
              "random walks over completion order x placement of each completion callback relative to the caller's critical "
              "sections and polls x consumer decisions; non-trivial = distinct (configuration, schedule) with at least one "
              "completion delivered at a non-default point")
    c.rule += ("; L2: seeded schedules of real threads (caller + serial or concurrent callback threads) under a hand-off scheduler "
               "with yield points at lock acquire/release, inside the input iterator, in submit, at polls")
    c.assumptions += ["L1: callbacks are atomic w.r.t. the caller; L2: pre-emption only at the listed yield points",
                      "backend behaves like the documented extension API (ControlledBackend)"]


common.main("C16", "model_checking", body)
