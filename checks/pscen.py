"""Scenario families of the Parallel checks (configurations of harness/pl1.py)."""
from harness.pl1 import default_cfg as D

LIST, GEN, UNORD = "list", "generator", "generator_unordered"


def sequential(prop):
    """n_jobs == 1: joblib's in-caller path (_get_sequential_output); deterministic but for the consumer's decisions"""
    S = []
    modes = (LIST, GEN, UNORD)
    for mode in modes:
        if prop == "C01":
            for n in (0, 1, 4):
                S.append((D(mode=mode, nj=1, pre=2, bs=1, calls=[dict(n=n), dict(n=2)]), "dfs", 50))
            S.append((D(mode=mode, nj=1, pre="all", bs=3, managed=True, calls=[dict(n=5), dict(n=2)]), "dfs", 50))
        elif prop == "C04":
            S.append((D(mode=mode, nj=1, pre=2, bs=1, calls=[dict(n=4, fail=(1,)), dict(n=3, iterfail=1), dict(n=2)]), "dfs", 50))
            # progress messages on (they are computed in the same finally blocks that clean up after a failure)
            S.append((D(mode=mode, nj=1, pre=2, bs=1, verbose=1, calls=[dict(n=4, fail=(2,)), dict(n=3, iterfail=1), dict(n=2)]), "dfs", 50))
            S.append((D(mode=mode, nj=1, pre=2, bs=2, verbose=11, calls=[dict(n=5, fail=(0,)), dict(n=2)]), "dfs", 50))
            S.append((D(mode=mode, nj=1, pre=2, bs=1, managed=True, calls=[dict(n=4, iterfail=0), dict(n=3, fail=(2,)), dict(n=2)]), "dfs", 50))
        elif prop == "C09":
            S.append((D(mode=mode, nj=1, pre="2*n_jobs", bs=2, calls=[dict(n=9)]), "dfs", 50))
            S.append((D(mode=mode, nj=1, pre=3, bs=1, calls=[dict(n=8, fail=(2,)), dict(n=2)]), "dfs", 50))
        elif prop == "C16" and mode != LIST:
            S.append((D(mode=mode, nj=1, pre=2, bs=1, calls=[dict(n=3, cons="free"), dict(n=2)]), "dfs", 400))
            S.append((D(mode=mode, nj=1, pre=2, bs=1, calls=[dict(n=4, cons="close"), dict(n=4, cons="close"), dict(n=2)]), "dfs", 200))
            S.append((D(mode=mode, nj=1, pre=2, bs=1, managed="per_call", calls=[dict(n=3, cons="leave"), dict(n=2)]), "dfs", 100))
    return S


def c01(quick):
    S = sequential("C01")
    lim = 400 if quick else 6000
    rnd = 150 if quick else 1500
    for mode in (LIST, GEN):
        for (n, nj, pre, bs) in [(0, 2, 2, 1), (1, 2, 2, 1), (3, 2, 2, 1), (4, 2, 4, 1), (4, 2, "all", 1), (5, 2, 2, 2), (5, 3, "n_jobs", 1)]:
            S.append((D(mode=mode, nj=nj, pre=pre, bs=bs, calls=[dict(n=n)]), "dfs", lim))
        # boundaries of the look-ahead / batch slicing, auto batching, legacy (no retrieve callback), inline callbacks
        for n in ((7, 12, 13) if quick else (7, 8, 9, 11, 12, 13, 16, 17, 23)):
            S.append((D(mode=mode, nj=2, pre="2*n_jobs", bs=2, calls=[dict(n=n)]), "random", rnd))
            S.append((D(mode=mode, nj=3, pre="1.5*n_jobs", bs="auto", bsizes=[1, 2, 4], calls=[dict(n=n)]), "random", rnd))
        S.append((D(mode=mode, nj=2, pre=4, bs=1, inline=True, calls=[dict(n=5)]), "dfs", lim))
        S.append((D(mode=mode, nj=2, pre=1, bs=1, inline=True, calls=[dict(n=2), dict(n=3)]), "dfs", 300))
        S.append((D(mode=mode, nj=2, pre=2, bs=3, calls=[dict(n=10)]), "random", rnd))
        S.append((D(mode=mode, nj=2, pre="all", bs="auto", bsizes=[1, 3], calls=[dict(n=9)]), "random", rnd))
        S.append((D(mode=mode, nj=2, pre=3, bs=1, managed=True, calls=[dict(n=4), dict(n=3)]), "random", rnd))
        # progress messages on (they read the dispatch counters and the input's state from callbacks and from the caller)
        S.append((D(mode=mode, nj=2, pre="2*n_jobs", bs=2, verbose=11, calls=[dict(n=9), dict(n=3)]), "random", max(30, rnd // 3)))
        S.append((D(mode=mode, nj=2, pre="all", bs=1, verbose=60, calls=[dict(n=5)]), "random", max(30, rnd // 3)))
    # the object is called again while an earlier output generator is alive but no longer running (all its tasks are done,
    # some results not yet taken), or after that generator was closed: the new call yields exactly its own values
    S.append((D(mode=GEN, nj=2, pre="all", bs=1, calls=[dict(n=4, cons="free"), dict(n=3)]), "random", rnd))
    S.append((D(mode=GEN, nj=2, pre=2, bs=1, calls=[dict(n=3, cons="free"), dict(n=3, cons="free"), dict(n=2)]), "random", rnd))
    S.append((D(mode=LIST, nj=2, pre=4, bs=1, rc=False, calls=[dict(n=5)]), "dfs", lim))
    S.append((D(mode=LIST, nj=2, pre=2, bs=2, rc=False, calls=[dict(n=7)]), "random", rnd))
    # the real AutoBatchingMixin, fed with scripted (virtual) task durations: fast / ideal / slow / very slow
    for mode in (LIST, GEN):
        S.append((D(mode=mode, nj=2, pre="2*n_jobs", bs="auto", autobatch=[0.0004, 0.02, 0.4, 3.0], calls=[dict(n=60)]), "random", rnd))
        S.append((D(mode=mode, nj=3, pre="2*n_jobs", bs="auto", autobatch=[0.0001, 1.5], calls=[dict(n=90), dict(n=20)]), "random", rnd))
    return S


def c04(quick):
    S = sequential("C04")
    lim = 250 if quick else 8000
    rnd = 70 if quick else 1500
    for mode in (LIST, GEN, UNORD):
        for (n, nj, pre, bs) in [(3, 2, 2, 1), (4, 2, 4, 1), (4, 2, "all", 1), (5, 2, 2, 2)]:
            S.append((D(mode=mode, nj=nj, pre=pre, bs=bs, calls=[dict(n=n, fail=(1,)), dict(n=n)]), "dfs", lim))
            S.append((D(mode=mode, nj=nj, pre=pre, bs=bs, calls=[dict(n=n, iterfail=2), dict(n=n)]), "dfs", lim))
        S.append((D(mode=mode, nj=2, pre=2, bs=1, calls=[dict(n=8, fail=(1, 5)), dict(n=3, fail=(0,)), dict(n=4)]), "random", rnd))
        S.append((D(mode=mode, nj=2, pre=3, bs=1, managed=True, calls=[dict(n=5, fail=(3,)), dict(n=3, iterfail=1), dict(n=4)]), "random", rnd))
        S.append((D(mode=mode, nj=2, pre=3, bs=1, timeout=0.05, calls=[dict(n=5, hang=(2,)), dict(n=3)]), "random", rnd))
        S.append((D(mode=mode, nj=2, pre=2, bs=1, timeout=0.03, calls=[dict(n=3, hang=(0,)), dict(n=3, hang=(2,)), dict(n=2)]), "dfs", lim))
        S.append((D(mode=mode, nj=2, pre="all", bs=1, inline=True, calls=[dict(n=4, iterfail=2), dict(n=2)]), "dfs", lim))
        S.append((D(mode=mode, nj=2, pre=2, bs=1, inline=True, calls=[dict(n=4, iterfail=3), dict(n=2)]), "dfs", lim))
        S.append((D(mode=mode, nj=3, pre="2*n_jobs", bs="auto", bsizes=[1, 2], calls=[dict(n=12, fail=(7,)), dict(n=5)]), "random", rnd))
        S.append((D(mode=mode, nj=2, pre=2, bs=1, calls=[dict(n=3, iterfail=0), dict(n=2)]), "dfs", lim))
        S.append((D(mode=mode, nj=2, pre=2, bs=1, calls=[dict(n=3, iterfail="iter"), dict(n=2)]), "dfs", 50))
        S.append((D(mode=mode, nj=2, pre=2, bs=1, calls=[dict(n=3, iterfail="len"), dict(n=2)]), "dfs", 50))
        S.append((D(mode=mode, nj=2, pre=3, bs=1, verbose=5, calls=[dict(n=5, fail=(2,)), dict(n=3)]), "random", max(20, rnd // 3)))
        S.append((D(mode=mode, nj=2, pre="all", bs=1, managed=True, calls=[dict(n=3, iterfail="iter"), dict(n=2, iterfail="iter"), dict(n=2)]), "dfs", 50))
        S.append((D(mode=mode, nj=2, pre=2, bs=1, calls=[dict(n=3, iterfail=3), dict(n=2)]), "dfs", lim))
    S.append((D(mode=LIST, nj=2, pre=2, bs=1, rc=False, calls=[dict(n=4, fail=(2,)), dict(n=3)]), "dfs", lim))
    S.append((D(mode=LIST, nj=2, pre=2, bs=1, rc=False, timeout=0.05, calls=[dict(n=4, hang=(1,)), dict(n=3)]), "dfs", lim))
    return S


def c09(quick):
    S = sequential("C09")
    lim = 400 if quick else 6000
    rnd = 120 if quick else 1500
    for mode in (LIST, GEN, UNORD):
        for pre in (2, "n_jobs", "2*n_jobs", "1.5*n_jobs", 5):
            for bs in ((1, 2) if quick else (1, 2, 3)):
                S.append((D(mode=mode, nj=2, pre=pre, bs=bs, calls=[dict(n=14)]), "random", rnd))
        S.append((D(mode=mode, nj=3, pre="2*n_jobs", bs="auto", bsizes=[1, 2, 4], calls=[dict(n=30)]), "random", rnd))
        S.append((D(mode=mode, nj=2, pre=3, bs=1, verbose=11, calls=[dict(n=12, fail=(4,)), dict(n=2)]), "random", max(30, rnd // 3)))
        # fewer pre-dispatched tasks than workers (the user asked for LESS look-ahead than one task per worker)
        for nj, pre in ((2, 1), (3, 1), (3, 2), (4, "0.5*n_jobs")):
            S.append((D(mode=mode, nj=nj, pre=pre, bs=1, calls=[dict(n=7)]), "random", max(30, rnd // 4)))
        S.append((D(mode=mode, nj=2, pre="all", bs=1, calls=[dict(n=6)]), "dfs", lim))
        S.append((D(mode=mode, nj=2, pre="all", bs=2, calls=[dict(n=9)]), "random", rnd))
        S.append((D(mode=mode, nj=2, pre=4, bs=1, calls=[dict(n=5)]), "dfs", lim))
        # stop clause: failure / iterator error / close with plenty of input left
        S.append((D(mode=mode, nj=2, pre=4, bs=1, calls=[dict(n=12, fail=(2,)), dict(n=2)]), "random", rnd))
        S.append((D(mode=mode, nj=2, pre=6, bs=1, calls=[dict(n=6, fail=(0,))]), "dfs", lim))
        S.append((D(mode=mode, nj=2, pre=8, bs=1, calls=[dict(n=20, fail=(1,))]), "random", rnd))
    for mode in (GEN, UNORD):
        S.append((D(mode=mode, nj=2, pre=2, bs=1, calls=[dict(n=10, cons="close"), dict(n=2)]), "random", rnd))
        # the same under "python -W error": the exit-early warning raised while closing must not keep the input flowing
        S.append((D(mode=mode, nj=2, pre=2, bs=1, warn_error=True, calls=[dict(n=10, cons="close"), dict(n=2)]), "random", rnd))
        S.append((D(mode=mode, nj=2, pre=3, bs=1, warn_error=True, managed=True, calls=[dict(n=12, cons="close"), dict(n=2)]), "random", rnd))
    # D9 (known finding): completions delivered at every critical-section boundary of the initial dispatch loop
    S.append((D(mode=LIST, nj=2, pre=2, bs=1, calls=[dict(n=24)]), "sched", [[1] * 60]))
    return S


def c16(quick):
    S = sequential("C16")
    lim = 600 if quick else 10000
    rnd = 150 if quick else 2000
    for mode in (GEN, UNORD):
        S.append((D(mode=mode, nj=2, pre=2, bs=1, calls=[dict(n=3, cons="free"), dict(n=2)]), "dfs", lim))
        S.append((D(mode=mode, nj=2, pre=4, bs=1, calls=[dict(n=4, cons="close"), dict(n=3)]), "dfs", lim))
        S.append((D(mode=mode, nj=2, pre=2, bs=2, calls=[dict(n=6, cons="free"), dict(n=3, cons="free")]), "random", rnd))
        S.append((D(mode=mode, nj=3, pre="2*n_jobs", bs=1, calls=[dict(n=9)]), "random", rnd))
        S.append((D(mode=mode, nj=2, pre="all", bs=1, calls=[dict(n=5, cons="free"), dict(n=2)]), "random", rnd))
        S.append((D(mode=mode, nj=2, pre=3, bs=1, managed=True, calls=[dict(n=5, cons="free"), dict(n=3, cons="close"), dict(n=2)]), "random", rnd))
        S.append((D(mode=mode, nj=2, pre=3, bs=1, calls=[dict(n=6, fail=(4,), cons="free"), dict(n=2)]), "random", rnd))
        S.append((D(mode=mode, nj=2, pre=4, bs=1, inline=True, calls=[dict(n=6, cons="free")]), "random", rnd))
        S.append((D(mode=mode, nj=2, pre=2, bs=1, calls=[dict(n=4)]), "dfs", lim))
        S.append((D(mode=mode, nj=2, pre=2, bs=1, managed="per_call", calls=[dict(n=4, cons="leave"), dict(n=3, cons="leave"), dict(n=2)]), "dfs", lim))
        S.append((D(mode=mode, nj=2, pre=3, bs=1, verbose=11, calls=[dict(n=6, cons="free"), dict(n=3)]), "random", max(30, rnd // 3)))
        # a timeout is set and never reached by any single wait, although the whole run lasts much longer
        S.append((D(mode=mode, nj=2, pre=4, bs=1, timeout=0.04, calls=[dict(n=12), dict(n=3)]), "random", rnd))
        S.append((D(mode=mode, nj=2, pre="all", bs=1, timeout=0.03, calls=[dict(n=9)]), "random", rnd))
        # ... deterministically: whichever batch is watched for the timeout stays pending for most of the run in one of the two orders
        for how in ("lifo", "fifo"):
            S.append((D(mode=mode, nj=2, pre="all", bs=1, timeout=0.03, calls=[dict(n=9)]), how, 1))
            S.append((D(mode=mode, nj=3, pre=6, bs=1, timeout=0.04, calls=[dict(n=12), dict(n=3)]), how, 1))
        # warnings are errors (python -W error): the "exit early" warning raised while closing must not skip the abort
        S.append((D(mode=mode, nj=2, pre=2, bs=1, warn_error=True, calls=[dict(n=6, cons="close"), dict(n=3)]), "random", rnd))
        S.append((D(mode=mode, nj=2, pre=3, bs=1, warn_error=True, managed=True, calls=[dict(n=6, cons="close"), dict(n=3)]), "random", rnd))
        # completions delivered inside submit (a backend whose futures are already done when the callback is attached):
        # the first callback may exhaust the input before the caller's dispatch loop has finished its first step
        for pre in (1, 2):
            S.append((D(mode=mode, nj=2, pre=pre, bs=1, inline=True, calls=[dict(n=2), dict(n=3)]), "dfs", 300))
        S.append((D(mode=mode, nj=2, pre=3, bs=2, managed="per_call", calls=[dict(n=9, cons="leave"), dict(n=3)]), "random", rnd))
    return S


def l2(which, quick):
    """L2 (real threads, deterministic scheduler) scenarios: (cfg, number of seeded schedules)."""
    r = 120 if quick else 1500
    S = []
    for cb in ("serial", "concurrent"):
        if which == "C01":
            for mode in (LIST, GEN):
                S.append((D(mode=mode, nj=2, pre=4, bs=1, cbthreads=cb, calls=[dict(n=8)]), r))
                S.append((D(mode=mode, nj=2, pre=6, bs=2, cbthreads=cb, calls=[dict(n=11)]), r))
                S.append((D(mode=mode, nj=3, pre="2*n_jobs", bs="auto", bsizes=[1, 2], cbthreads=cb, calls=[dict(n=10)]), r))
            # legacy protocol, futures semantics: the caller fetches a result while another thread is still dispatching
            S.append((D(mode=LIST, nj=2, pre=2, bs=1, rc=False, cbthreads=cb, calls=[dict(n=5)]), r))
            S.append((D(mode=GEN, nj=2, pre=2, bs=2, rc=False, cbthreads=cb, calls=[dict(n=7), dict(n=3)]), r))
        elif which == "C04":
            for mode in (LIST, GEN, UNORD):
                S.append((D(mode=mode, nj=2, pre=4, bs=1, cbthreads=cb, calls=[dict(n=6, fail=(2,)), dict(n=4)]), r))
                S.append((D(mode=mode, nj=2, pre=4, bs=1, cbthreads=cb, calls=[dict(n=7, fail=(1, 3)), dict(n=3, iterfail=2), dict(n=3)]), r))
                S.append((D(mode=mode, nj=2, pre=4, bs=1, cbthreads=cb, joins=(cb == "serial"), calls=[dict(n=6, fail=(0,)), dict(n=5)]), r))
                S.append((D(mode=mode, nj=2, pre=3, bs=1, cbthreads=cb, timeout=0.04, calls=[dict(n=5, hang=(1,)), dict(n=3)]), r // 2))
            S.append((D(mode=LIST, nj=2, pre=2, bs=1, rc=False, cbthreads=cb, calls=[dict(n=5, fail=(2,)), dict(n=3)]), r // 2))
            S.append((D(mode=LIST, nj=2, pre=2, bs=1, rc=False, cbthreads=cb, timeout=0.04, calls=[dict(n=4, hang=(1,)), dict(n=3)]), r // 2))
        elif which == "C09":
            for mode in (LIST, GEN, UNORD):
                S.append((D(mode=mode, nj=2, pre=4, bs=1, cbthreads=cb, calls=[dict(n=10)]), r))
                S.append((D(mode=mode, nj=2, pre=6, bs=1, cbthreads=cb, calls=[dict(n=12, fail=(1,))]), r))
                S.append((D(mode=mode, nj=2, pre="2*n_jobs", bs=2, cbthreads=cb, calls=[dict(n=14)]), r))
            S.append((D(mode=GEN, nj=2, pre=4, bs=1, cbthreads=cb, calls=[dict(n=10, closeat=2), dict(n=3)]), r))
        elif which == "C16":
            for mode in (GEN, UNORD):
                S.append((D(mode=mode, nj=2, pre=4, bs=1, cbthreads=cb, calls=[dict(n=8)]), r))
                S.append((D(mode=mode, nj=2, pre=4, bs=1, cbthreads=cb, calls=[dict(n=8, closeat=3), dict(n=4)]), r))
                S.append((D(mode=mode, nj=2, pre=6, bs=2, cbthreads=cb, calls=[dict(n=10, closeat=1), dict(n=4, closeat=0), dict(n=3)]), r))
    return S


def models(which, quick):
    """(name, must_hold, liveness, overrides) for specs/ParallelDesign.tla; the *_off entries switch one repair off and
    must produce a counterexample (sensitivity of the model to that defect class)."""
    M = []
    if which == "C01":
        M += [("base", True, False, {}), ("n5_b12", True, False, dict(N=5, BSizes={1, 2})), ("gen", True, False, dict(Mode="gen")),
              ("all", True, False, dict(PRE=0)), ("nj3", True, False, dict(N=5, NJ=3, PRE=3))]
        if not quick:
            M += [("n6_b12", True, False, dict(N=6, BSizes={1, 2}, PRE=4)), ("n7", True, False, dict(N=7, PRE=3)),
                  ("hostile", True, False, dict(N=4, SerialCb=False, AbortJoins=False, Mode="gen")),
                  ("n6_nj3_b2", True, False, dict(N=6, NJ=3, PRE=6, BSizes={2}))]
    elif which == "C04":
        M += [("fail_2calls", True, False, dict(N=3, Fail={1}, Calls=2, FailCalls={1})),
              ("iterfail_all", True, False, dict(N=3, PRE=0, IterFailAt=2, SerialCb=False)),
              ("iterfail_pre", True, False, dict(N=4, PRE=2, IterFailAt=3, Calls=2, FailCalls={1})),
              ("live_fail", True, True, dict(N=3, Fail={1})),
              ("D1_off", False, False, dict(N=4, Fail={0}, Calls=2, FixReady=False, SerialCb=False)),
              ("D8_off", False, False, dict(N=3, PRE=0, IterFailAt=2, FixD8=False, SerialCb=False)),
              ("D12_off", False, False, dict(N=3, Fail={1}, Calls=2, FixCallId=False, AbortJoins=False)),
              ("D7_off", False, False, dict(N=3, Fail={1}, Calls=2, FixD7=False, AbortJoins=False, SerialCb=False))]
        if not quick:
            M += [("fail_3calls", True, False, dict(N=3, Fail={1}, Calls=3, FailCalls={1, 2})),
                  ("hostile_2calls", True, False, dict(N=4, Fail={2}, Calls=2, AbortJoins=False, SerialCb=False, Mode="gen", FailCalls={1})),
                  ("unord_fail", True, False, dict(N=4, Mode="unordered", Fail={2}, Calls=2, FailCalls={1})),
                  ("live_gen", True, True, dict(N=4, Mode="gen", BSizes={1, 2}))]
    elif which == "C09":
        M += [("look_n6", True, False, dict(N=6, PRE=2), ["Lookahead"]),
              ("look_b12", True, False, dict(N=6, PRE=2, BSizes={1, 2}), ["Lookahead"]),
              # D9 (open finding): the design does not bound the batches in flight by the pre-dispatched number
              ("D9_inflight", False, False, dict(N=5, PRE=2, KB=2), ["InFlightK"])]
        if not quick:
            M += [("look_n8_pre4", True, False, dict(N=8, PRE=4), ["Lookahead"]),
                  ("D9_n12", False, False, dict(N=12, PRE=2, K=6), ["LookK"])]
    elif which == "C16":
        M += [("gen", True, False, dict(N=4, Mode="gen")), ("unord", True, False, dict(N=4, Mode="unordered")),
              ("gen_2calls_close", True, False, dict(N=3, Mode="gen", Calls=2)),
              ("live_unord", True, True, dict(N=3, Mode="unordered"))]
        if not quick:
            M += [("gen_b12", True, False, dict(N=5, Mode="gen", BSizes={1, 2})),
                  ("unord_fail_2calls", True, False, dict(N=4, Mode="unordered", Fail={2}, Calls=2, FailCalls={1}))]
    return M


def conformance(which, quick):
    """model-compatible L1 scenarios: (cfg, dfs limit) for code->design conformance; cfgs for design->code replay"""
    lim = 60 if quick else 600
    if which == "C01":
        A = [D(mode=LIST, nj=2, pre=2, bs=1, calls=[dict(n=4)]), D(mode=GEN, nj=2, pre=4, bs=2, calls=[dict(n=6)]),
             D(mode=LIST, nj=2, pre="all", bs=1, calls=[dict(n=4)])]
    elif which == "C04":
        A = [D(mode=LIST, nj=2, pre=2, bs=1, calls=[dict(n=4, fail=(1,)), dict(n=4)]),
             D(mode=UNORD, nj=2, pre=2, bs=1, calls=[dict(n=4, fail=(2,)), dict(n=4)]),
             D(mode=LIST, nj=2, pre=2, bs=2, calls=[dict(n=5, iterfail=3), dict(n=5)])]
    elif which == "C09":
        A = [D(mode=LIST, nj=2, pre=2, bs=1, calls=[dict(n=6)]), D(mode=GEN, nj=2, pre=4, bs=1, calls=[dict(n=6, fail=(1,))]),
             D(mode=UNORD, nj=2, pre="all", bs=1, calls=[dict(n=5)])]
    else:
        A = [D(mode=GEN, nj=2, pre=2, bs=1, calls=[dict(n=4, cons="close"), dict(n=4)]),
             D(mode=UNORD, nj=2, pre=2, bs=1, calls=[dict(n=4, cons="close"), dict(n=4)]),
             D(mode=GEN, nj=2, pre="all", bs=1, calls=[dict(n=4)])]
    return [(a, lim) for a in A], A


def l3(which, quick):
    """gate-steered runs on the built-in backends (harness/pl3.py)"""
    R = []
    backs = ("threading", "loky", "multiprocessing")
    for b in backs:
        if which == "C01":
            R += [dict(backend=b, mode=LIST, nj=2, pre="2*n_jobs", bs=1, n=7, order="reverse"),
                  dict(backend=b, mode=GEN, nj=2, pre=4, bs=2, n=9, order=[3, 2, 0, 7]),
                  dict(backend=b, mode=LIST, nj=3, pre="all", bs=1, n=6, order=[2, 0, 1, 5, 4, 3])]
            if b != "loky":
                R += [dict(backend="legacy_" + b, mode=LIST, nj=2, pre="2*n_jobs", bs=1, n=7, order="reverse")]
            if not quick:
                R += [dict(backend=b, mode=GEN, nj=2, pre="n_jobs", bs=1, n=8, order=[1, 0, 3, 2, 5, 4, 7, 6]), dict(backend=b, mode=LIST, nj=2, pre=6, bs=3, n=13, order="reverse"),
                      dict(backend=b, mode=LIST, nj=1, pre=2, bs=1, n=4, order="inorder")]
        elif which == "C04":
            R += [dict(backend=b, mode=LIST, nj=2, pre=4, bs=1, n=8, order=[2, 3], fail=[2], calls=2),
                  dict(backend=b, mode=GEN, nj=2, pre=4, bs=2, n=9, order=[3, 2, 0], fail=[5], calls=2),
                  dict(backend=b, mode=UNORD, nj=2, pre="2*n_jobs", bs=1, n=6, order="reverse", fail=[0], calls=2)]
            if b != "threading":
                # the outcome of a task cannot be sent back (result or exception that cannot be pickled): the call still
                # terminates with an error and the object stays usable
                R += [dict(backend=b, mode=LIST, nj=2, pre=4, bs=1, n=6, order="inorder", fail=[2], transport="result", calls=2, watchdog=25),
                      dict(backend=b, mode=LIST, nj=2, pre=4, bs=1, n=6, order="inorder", fail=[1], transport="exception", calls=2, watchdog=25)]
            if b != "loky":
                R += [dict(backend="legacy_" + b, mode=LIST, nj=2, pre=4, bs=1, n=8, order=[2, 3], fail=[2], calls=2)]
            if not quick:
                R += [dict(backend=b, mode=LIST, nj=3, pre="all", bs=1, n=6, order=[2, 0, 1], fail=[4, 1], calls=3)]
        elif which == "C16":
            R += [dict(backend=b, mode=GEN, nj=2, pre=4, bs=1, n=8, order="reverse"),
                  dict(backend=b, mode=UNORD, nj=2, pre="2*n_jobs", bs=1, n=6, order="reverse"),
                  dict(backend=b, mode=GEN, nj=2, pre=4, bs=1, n=8, order="inorder", closeat=2, calls=2),
                  dict(backend=b, mode=GEN, nj=2, pre=4, bs=1, n=8, order="inorder", closeat=2, calls=2, close_in_other_thread=True),
                  dict(backend=b, mode=UNORD, nj=2, pre=4, bs=1, n=8, order="reverse", closeat=1, calls=3, close_in_other_thread=True)]
            if not quick:
                R += [dict(backend=b, mode=UNORD, nj=3, pre=6, bs=2, n=12, order=[5, 4, 1, 0, 9, 8], closeat=3, calls=2)]
        elif which == "C09":
            R += [dict(backend=b, mode=LIST, nj=2, pre=4, bs=1, n=12, order="inorder"), dict(backend=b, mode=GEN, nj=2, pre="2*n_jobs", bs=1, n=12, order="reverse", fail=[1])]
    return [r for r in R if not (r["backend"].endswith("multiprocessing") and r["mode"] != LIST)]     # MultiprocessingBackend does not support return_as generators
