import os, sys, json, shutil, time, collections, random, glob, re
from concurrent.futures import ThreadPoolExecutor
sys.path.insert(0, os.path.dirname(os.path.dirname(os.path.abspath(__file__))))
from checks import common, cachefs_model
from engine import tlc
from harness import fsctl

# scenario = (name, prepare [(ver, opts, ops)], participants [(ver, opts, ops)], model cfg or None)
SCEN = [
    ("call_call_same_cold", [], [(1, {}, [["call", 3]]), (1, {}, [["call", 3]])], dict(ops="CC", vers="11", keys="AA")),
    ("call_call_diff_cold", [], [(1, {}, [["call", 3]]), (1, {}, [["call", 4]])], dict(ops="CC", vers="11", keys="AB")),
    ("call_clear_cold", [], [(1, {}, [["call", 3]]), (1, {}, [["clear"]])], dict(ops="CL", vers="11", keys="AA")),
    ("call_clear_warm", [(1, {}, [["call", 3], ["call", 4]])], [(1, {}, [["call", 3]]), (1, {}, [["clear"]])], dict(ops="CL", vers="11", keys="AA", warm=("a", "b"))),
    ("call_reduce_warm", [(1, {}, [["call", 3], ["call", 4]])], [(1, {}, [["call", 3]]), (1, {}, [["reduce", {"items_limit": 0}]])], dict(ops="CR", vers="11", keys="AA", warm=("a", "b"))),
    ("shelve_reduce_warm", [(1, {}, [["call", 3]])], [(1, {}, [["shelveref", 3]]), (1, {}, [["reduce", {"items_limit": 0}]])], None),
    # (an argument whose repr carries braces: the messages about an entry that could not be loaded quote the call)
    ("expires_call_reduce", [(1, {"expires": 1000}, [["call", 3, {"k": "{}", "{0}": [1]}]])], [(1, {"expires": 1000}, [["call", 3, {"k": "{}", "{0}": [1]}]]), (1, {}, [["reduce", {"items_limit": 0}]])], None),
    # coroutine functions (AsyncMemorizedFunc): an eviction / a concurrent store between the look-up and the load
    ("acall_reduce_warm", [(1, {}, [["acall", 3]])], [(1, {}, [["acall", 3]]), (1, {}, [["reduce", {"items_limit": 0}]])], None),
    ("acall_acall_cold", [], [(1, {}, [["acall", 3]]), (1, {}, [["acall", 3]])], None),
    ("call_call_clear", [(1, {}, [["call", 3]])], [(1, {}, [["call", 3]]), (1, {}, [["call", 4]]), (1, {}, [["clear"]])], dict(ops="CCL", vers="111", keys="ABA", warm=("a",))),
    ("call_call_clear_cold", [], [(1, {}, [["call", 3]]), (1, {}, [["call", 4]]), (1, {}, [["clear"]])], None),
    ("call_call_clearall_cold", [], [(1, {}, [["call", 3]]), (1, {}, [["call", 4]]), (1, {}, [["clear_all"]])], None),
    ("srcchange_call_call", [(1, {}, [["call", 3], ["call", 4]])], [(2, {}, [["call", 3]]), (2, {}, [["call", 4]])], None),
    ("threads_call_call_clear", [(1, {}, [["call", 3]])], [(1, {}, [["threads", [[["call", 3], ["call", 5]], [["clear"], ["call", 4]]]]])], None),
    ("reduce_clear_orphan", [(1, {}, [["call", 3], ["call", 4], ["orphan", "0" * 32, "f" * 32]])], [(1, {}, [["reduce", {"items_limit": 1}]]), (1, {}, [["clear"]])], None),
    ("reduce_reduce_orphan", [(1, {}, [["call", 3], ["call", 4], ["orphan", "0" * 32, "f" * 32]])], [(1, {}, [["reduce", {"items_limit": 0}]]), (1, {}, [["reduce", {"items_limit": 1}]])], None),
    # cold start: the first call of thread A stores the source itself, so its later calls take the in-memory shortcut
    ("threads_call_call_clearall", [], [(1, {}, [["threads", [[["call", 3], ["call", 5], ["call", 3]], [["clear_all"]]]]])], None),
    ("clearall_call", [(1, {}, [["call", 3]])], [(1, {}, [["call", 3], ["call", 4]]), (1, {}, [["clear_all"]])], None),
]
QUICK = {"call_call_same_cold", "call_clear_cold", "call_clear_warm", "call_reduce_warm", "shelve_reduce_warm", "call_call_clear", "threads_call_call_clear", "expires_call_reduce", "reduce_clear_orphan", "clearall_call", "call_call_clearall_cold", "threads_call_call_clearall", "acall_reduce_warm", "acall_acall_cold"}


CODE_TEXTS = {}
MEMO = {}           # classification of file contents (the same few contents recur in every schedule)
STEPS = {"on": True}


def spec_of(base, k, ver, opts, ops):
    return dict(moddir=os.path.join(base, "mod_v%d" % ver), ver=ver, log=os.path.join(base, "exec%d.log" % k), opts=opts, ops=ops)


def run_schedule(args):
    base, sc, sid, sched, seed = args
    name, prepare, parts, _ = sc
    cdir = os.path.join(base, "s%d" % sid); root = os.path.join(cdir, "cache"); os.makedirs(cdir)
    shutil.copytree(os.path.join(base, "template"), root)
    rng = random.Random(seed)
    sch = list(sched) if sched is not None else None

    seen = set()
    snaps = []          # the directory in the vocabulary of CacheFS before every granted call (= after the previous one)
    want_steps = sc[3] is not None and bool(CODE_TEXTS) and STEPS.get("on")

    def policy(waiting, step):
        if want_steps:
            try: snaps.append(cachefs_model.snapshot(root, {3: "a", 4: "b"}, CODE_TEXTS, owners=False, memo=MEMO))
            except Exception: snaps.append(None)
        seen.update(waiting)
        if sch is None:
            return rng.choice(sorted(waiting)), "G"
        while sch:
            a = sch[0]
            if a in waiting:
                sch.pop(0); return a, "G"
            if a in seen:
                sch.pop(0); continue          # that actor has finished (or waits for another one): its remaining turns are void
            # an actor that has not shown up yet (a thread not started, a process still importing): somebody else runs, the
            # turn is kept for it
            return min(waiting), "G"
        return min(waiting), "G"
    nthreads = sum(len(op[1]) - 1 for v, o, ops in parts for op in ops if op[0] == "threads")
    outs, trace = fsctl.run(root, [spec_of(cdir, k, *p) for k, p in enumerate(parts)], policy, extra_threads=nthreads)
    problems = []
    for k, ((ver, opts, ops), (rc, lines, err)) in enumerate(zip(parts, outs)):
        flat = []
        for op in ops:
            if op[0] == "threads":
                for sub in op[1]: flat += sub
            flat.append(op)
        if rc != 0 or len(lines) != len(flat):
            problems.append({"participant": k, "kind": "died", "rc": rc, "err": err[-300:], "lines": lines}); continue
        for l in lines:
            op = l["op"]
            if "exc" in l:
                problems.append({"participant": k, "kind": "exception", "op": op, "exc": l["exc"], "msg": l.get("msg")})
            elif op[0] in ("call", "acall", "shelve", "shelveref"):
                exp = ["v%d" % ver, op[1], op[2] if len(op) > 2 else 0]
                if l["value"] != exp and not (op[0] == "shelveref" and l["value"] == "evicted"):
                    problems.append({"participant": k, "kind": "wrong_value", "op": op, "got": l["value"]})
    snap = None; last_state = None
    if sc[3] is not None and CODE_TEXTS:
        try: snap = cachefs_model.snapshot(root, {3: "a", 4: "b"}, CODE_TEXTS)
        except Exception as e: snap = "snapshot-error: " + repr(e)[:100]
        if want_steps:
            try: last_state = cachefs_model.snapshot(root, {3: "a", 4: "b"}, CODE_TEXTS, owners=False, memo=MEMO)
            except Exception: last_state = None
    # afterwards: one complete result under every final name, and the directory is still usable
    rc, lines, err = fsctl.run_plain(root, spec_of(cdir, 9, parts[0][0], {}, [["loadall"], ["call", 3], ["call", 4]]))
    if rc != 0 or len(lines) != 3:
        problems.append({"participant": "after", "kind": "died", "err": err[-300:]})
    else:
        if lines[0].get("value"): problems.append({"participant": "after", "kind": "mixture_or_partial_final_file", "files": lines[0]["value"]})
        for l in lines[1:]:
            if "exc" in l or l.get("value") != ["v%d" % parts[0][0], l["op"][1], 0]:
                problems.append({"participant": "after", "kind": "unusable_afterwards", "line": l})
    shutil.rmtree(cdir, ignore_errors=True)
    steps = None
    if want_steps and snap is not None and not str(snap).startswith("snapshot-error"):
        seq = snaps + [last_state]
        steps = [(a, b, k) for k, (a, b) in enumerate(zip(seq, seq[1:])) if a is not None and b is not None and a != b]
    return {"scenario": name, "schedule": sched, "seed": seed, "actors": [t[0][0] for t in trace], "ncalls": len(trace),
            "trace": [t[0] for t in trace], "problems": problems, "snapshot": snap, "steps": steps}


def model_schedules(c, sc, num):
    """TLC -simulate behaviours of CacheFS -> who performs the next file-system step (process ids, 0-based)"""
    kw = sc[3]
    path = cachefs_model.cfg("sim_" + sc[0], invariants=(), **kw)
    d = os.path.join(common.OUT, "sim", "fs_" + sc[0]); shutil.rmtree(d, ignore_errors=True); os.makedirs(d)
    r = tlc.run("MCFS", path, simulate="file=%s/tr,num=%d" % (d, num), depth=300, seed=c.seed + 7, workers=1)
    c.add_tlc("CacheFS-simulate[%s]" % sc[0], r)
    scheds = []
    for f in sorted(glob.glob(d + "/tr_*")):
        acts = re.findall(r"^\\\* <(\w+)\((\d+)\) line", open(f).read(), re.M)
        scheds.append([int(p) - 1 for a, p in acts if a not in ("begin", "finished")])
    shutil.rmtree(d, ignore_errors=True)
    return scheds


def body(c):
    cachefs_model.run_c11(c)
    scen = [s for s in SCEN if (not c.quick) or s[0] in QUICK]
    # reference texts of the stored source (to classify func_code.py) and the final states of the model per scenario
    refb = common.scratch("c11_ref")
    for v in (1, 2):
        rd = os.path.join(refb, "v%d" % v); os.makedirs(rd)
        fsctl.run_plain(rd, spec_of(refb, 7, v, {}, [["call", 3]]))
        CODE_TEXTS[v] = open(os.path.join(rd, "joblib", "cachedmod", "f", "func_code.py"), "rb").read()
    shutil.rmtree(refb, ignore_errors=True)
    finals = {}; rels = {}
    for s in scen:
        if s[3] is not None and (not c.quick or len(s[3]["ops"]) <= 2):
            finals[s[0]], rels[s[0]] = cachefs_model.final_states_and_steps(c, s[0], **s[3])
    jobs = []; bases = []
    nrand = 4 if c.quick else 60
    nsim = 6 if c.quick else 80
    for sc in scen:
        name, prepare, parts, mcfg = sc
        base = common.scratch("c11_" + name); bases.append(base)
        tdir = os.path.join(base, "template"); os.makedirs(tdir)
        for ver, opts, ops in prepare:
            rc, lines, err = fsctl.run_plain(tdir, spec_of(base, 8, ver, opts, ops))
            if rc != 0 or any("exc" in l for l in lines): raise RuntimeError("prepare failed %s %s %s" % (name, lines, err))
        # reference run: participant 0 to completion, then 1, ... (gives the number of calls of each)
        ref = run_schedule((base, sc, 0, [0] * 400 + [1] * 400, 0))
        cnt = collections.Counter(ref["actors"])
        c.sample({"scenario": name, "reference_fs_calls": ref["trace"][:50]}, cap=2)
        sid = 1
        actors = sorted(cnt)
        if len(actors) >= 2:
            A, B = actors[0], actors[1]
            nA, nB = cnt[A], cnt[B]
            stepA = 1 if not c.quick else max(1, nA // 6)
            stepB = 1 if not c.quick else max(1, nB // 3)
            # at most 2 pre-emptions: A runs a calls, B runs b calls, A to completion, B to completion (and symmetric)
            for first, second, n1, n2, s1, s2 in ((A, B, nA, nB, stepA, stepB), (B, A, nB, nA, stepB, stepA)):
                if c.quick and name.startswith("acall"): break      # (same code path as the plain call: the one-window enumeration below is enough per change)
                for a in range(0, n1 + 1, s1):
                    for b in range(1, n2 + 1, s2):
                        jobs.append((base, sc, sid, [first] * a + [second] * b + [first] * (n1 + 10) + [second] * (n2 + 10), 0)); sid += 1
            # one pre-emption window at EVERY call: the other participant runs to completion inside it
            for first, second, n1, n2 in ((A, B, nA, nB), (B, A, nB, nA)):
                for a in range(0, n1 + 1):
                    jobs.append((base, sc, sid, [first] * a + [second] * (n2 + 10) + [first] * (n1 + 10), 0)); sid += 1
        if len(actors) >= 3:
            # three users: A is pre-empted twice - B runs to completion inside the first window, C inside a second window that
            # opens one or two calls later (e.g. B creates what A was about to create, C removes it before A looks again)
            import itertools
            for A, B, C in itertools.permutations(actors[:3], 3):
                # (threads of one process are actors without a participant entry of their own)
                destructive = len(parts) <= C or any(op[0] in ("clear", "clear_all", "reduce") for op in parts[C][2])
                if c.quick and not destructive: continue
                if len(parts) == 1 and (A == 0 or C == 0): continue      # threads of one process: the main thread only starts and joins them
                for a in range(0, cnt[A] + 1, 2 if c.quick else 1):
                    for a2 in ((1,) if c.quick else (1, 2)):
                        jobs.append((base, sc, sid, [A] * a + [B] * (cnt[B] + 10) + [A] * a2 + [C] * (cnt[C] + 10) + [A] * (cnt[A] + 10), 0)); sid += 1
        for s in range(nrand):
            jobs.append((base, sc, sid, None, c.seed * 1000 + s)); sid += 1
        if mcfg is not None:
            for sch in model_schedules(c, sc, nsim):
                jobs.append((base, sc, sid, sch, 0)); sid += 1
    with ThreadPoolExecutor(max_workers=14) as ex:
        results = list(ex.map(run_schedule, jobs))
    for b in bases: shutil.rmtree(b, ignore_errors=True)
    per = collections.Counter()
    nfin = 0; nout = 0
    for r in results:
        if r.get("snapshot") is not None and r["scenario"] in finals and not r["problems"]:
            nfin += 1
            if r["snapshot"] not in finals[r["scenario"]]:
                nout += 1
                if nout <= 4:
                    print("DRIFT property=C11 final state of the real directory is not a final state of CacheFS: scenario=%s schedule=%s snapshot=%s" % (r["scenario"], str(r["schedule"])[:80], str(r["snapshot"])[:400]))
    # step conformance: every change of the real directory between two consecutive file-system calls is a transition of CacheFS
    # (from that directory state), or the composition of two of them (a call in flight when the snapshot was taken)
    nst = 0; nbad = 0
    # (binding demonstration: a result appearing under its final name without a temporary file - a write in place - is a change no
    # transition of the model makes, nor two of them)
    import json as _json
    fake = (_json.dumps([["F", "F/a", "F/code"], [["F/code", ["code", 1]]]]), _json.dumps([["F", "F/a", "F/a/out", "F/code"], [["F/a/out", ["val", 1, "a"]], ["F/code", ["code", 1]]]]))
    for nm, rel in rels.items():
        succ = {}
        for a, b in rel: succ.setdefault(a, set()).add(b)
        if fake in rel or any(fake[1] in succ.get(m, ()) for m in succ.get(fake[0], ())):
            raise tlc.TLCError("step conformance lost its sensitivity: CacheFS[%s] lets a result appear under its final name in one or two steps" % nm)
    c.extra["step_relation_sizes"] = {nm: len(rel) for nm, rel in rels.items()}
    for r in results:
        if not r.get("steps") or r["scenario"] not in rels or r["problems"]: continue
        rel = rels[r["scenario"]]
        succ = {}
        for a, b in rel: succ.setdefault(a, set()).add(b)
        for a, b, k in r["steps"]:
            nst += 1
            if (a, b) in rel or any(b in succ.get(m, ()) for m in succ.get(a, ())): continue
            nbad += 1
            if nbad <= 4:
                print("DRIFT property=C11 the real directory changes in a way no transition of CacheFS does: scenario=%s call #%d %s: %s -> %s" % (r["scenario"], k, r["trace"][k] if k < len(r["trace"]) else "?", a[:300], b[:300]))
    c.extra["directory_steps_compared_with_model"] = nst; c.extra["directory_steps_not_in_model"] = nbad; c.drift += nbad
    c.extra["final_states_compared_with_model"] = nfin; c.extra["final_states_not_in_model"] = nout; c.drift += nout
    for r in results:
        c.evaluations += 1; per[r["scenario"]] += 1
        sw = sum(1 for x, y in zip(r["actors"], r["actors"][1:]) if x != y)
        if sw >= 1: c.nontrivial.add((r["scenario"], tuple(r["actors"])))
        for pb in r["problems"]:
            key = {"scenario": r["scenario"], "kind": pb["kind"], "participant": pb["participant"], "detail": pb.get("exc") or pb.get("got") or pb.get("files"),
                   "schedule": r["schedule"], "seed": r["seed"]}
            c.violation(key, "C11: scenario %s: %s" % (r["scenario"], pb), {"actors": r["actors"], "trace": r["trace"][-60:]})
    c.extra["schedules_per_scenario"] = dict(per)
    c.traces_validated = c.evaluations
    c.rule = ("each case = one scenario (2-3 real processes, or threads of one process, sharing a cache directory) x one schedule at "
              "file-system-call granularity enforced by the LD_PRELOAD interposer (turn-based): all schedules with <= 2 pre-emptions "
              "between the first two participants (strided in the quick tier), schedules projected from TLC -simulate behaviours of "
              "CacheFS, seeded random schedules; non-trivial = distinct interleaving with at least one switch")
    c.assumptions += ["interleaving granularity = libc file-system calls under the cache directory", "schedules enumerated for 2 participants; 3 participants sampled"]


common.main("C11", "model_checking", body)
