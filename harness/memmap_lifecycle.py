"""C20, end to end (runs under python3-vt: needs numpy): the temporary folder and memory-mapped files that joblib creates for large
arguments (TemporaryResourcesManager + resource tracker) exist as long as a task uses them and are gone once the last process
that registered them is gone - after a normal exit, a failed call, a killed worker, a killed main process, an abandoned generator.
argv[1] = JSON {"dir": scratch (JOBLIB_TEMP_FOLDER), "scenario": name};  role "driver" is the process that calls Parallel.
The supervising check starts the driver, possibly kills it, waits for every process to be gone and inspects the directory."""
import sys, os, json, time, signal, warnings


def task(a, d, i, mode):
    import numpy as np
    fn = getattr(a, "filename", None)
    rec = {"i": i, "pid": os.getpid(), "memmap": fn is not None, "exists_at_start": bool(fn and os.path.exists(fn))}
    open(os.path.join(d, "task_started_%d_%d" % (i, os.getpid())), "w").close()
    if mode == "block":
        t0 = time.time()
        while not os.path.exists(os.path.join(d, "release")) and time.time() - t0 < 30: time.sleep(0.01)
    elif mode == "fail" and i == 1:
        raise ValueError("task failure")
    else:
        time.sleep(0.15)
    rec["exists_after_use"] = bool(fn and os.path.exists(fn))
    rec["sum_ok"] = bool(int(a.sum()) == int(np.arange(a.size, dtype=a.dtype).sum()))
    with open(os.path.join(d, "task_log"), "a") as h: h.write(json.dumps(rec) + "\n")
    return rec


def driver(spec):
    warnings.simplefilter("ignore")
    import numpy as np
    from joblib import Parallel, delayed
    d = spec["dir"]; sc = spec["scenario"]
    big = np.arange(50000, dtype="int64")
    out = {"scenario": sc, "calls": []}

    def call(p, mode, n=4):
        try:
            r = p(delayed(task)(big, d, i, mode) for i in range(n))
            if not isinstance(r, list): return r
            out["calls"].append({"ok": True, "results": r})
        except BaseException as e:
            out["calls"].append({"ok": False, "exc": type(e).__name__})
        return None
    kw = dict(n_jobs=2, max_nbytes=1000, backend=spec.get("backend", "loky"))
    if spec.get("relative_temp"):
        # the tracker is started from one working directory, the call is made from another one with a RELATIVE temp_folder
        from joblib.externals.loky.backend import resource_tracker
        resource_tracker.ensure_running()
        os.makedirs(os.path.join(d, "cwd2"), exist_ok=True); os.chdir(os.path.join(d, "cwd2"))
        kw["temp_folder"] = "reltmp"
    if sc == "plain":
        call(Parallel(**kw), "use")
    elif sc == "managed_two_calls":
        with Parallel(**kw) as p:
            call(p, "use"); out["folders_between_calls"] = sorted(f for f in os.listdir(d) if f.startswith("joblib_memmapping_folder")); call(p, "use")
    elif sc == "task_fails":
        p = Parallel(**kw); call(p, "fail"); call(p, "use")
    elif sc in ("main_killed", "worker_killed"):
        open(os.path.join(d, "driver_pid"), "w").write(str(os.getpid()))
        call(Parallel(**kw), "block")          # the supervisor kills somebody while the tasks block
        if sc == "worker_killed": call(Parallel(**kw), "use")
    elif sc == "generator_abandoned":
        g = call(Parallel(return_as="generator", **kw), "use", n=6)
        first = next(g); out["calls"].append({"ok": True, "results": [first]})
        del g
    elif sc == "generator_alive_at_exit":
        g = call(Parallel(return_as="generator", **kw), "use", n=6)
        out["calls"].append({"ok": True, "results": [next(g)]})
        json.dump(out, open(os.path.join(d, "driver_out.json"), "w"))
        os._exit(0)                             # no interpreter shutdown: nothing gets a chance to clean up but the tracker
    json.dump(out, open(os.path.join(d, "driver_out.json"), "w"))


if __name__ == "__main__":
    driver(json.load(open(sys.argv[1])))
