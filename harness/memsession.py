"""Session process for history replay (C12, C02, C06): keeps function objects alive, applies operations read as JSON
lines from stdin, answers one JSON line each.  argv[1] = JSON {"root": cache dir, "work": scratch dir, "kind": ...}.
Functions are defined from real source files so that joblib sees sources exactly as in user code:
  kind module : def f(x) at module level of module `cachedmod` (one file per version, same module and function name)
  kind nested : f defined inside outer() of module `cachedmod`
  kind lambda : f = lambda x: ... in module `cachedmod`
  kind main   : def f(x) in a script run as __main__ (one path, rewritten by each definition)
Every version v returns ["v<v>", x] and appends a line to the execution log."""
import sys, os, json, warnings, linecache


SRC = {
    "module": "{pad}import os\n\n\ndef f(x):\n    with open({log!r}, 'a') as h:\n        h.write('{v} %r\\n' % (x,))\n    return ['v{v}', x]\n",
    "nested": "{pad}import os\n\n\ndef outer():\n    def f(x):\n        with open({log!r}, 'a') as h:\n            h.write('{v} %r\\n' % (x,))\n        return ['v{v}', x]\n    return f\n\n\nf = outer()\n",
    "lambda": "{pad}import os\n\n\ndef _log(v, x):\n    with open({log!r}, 'a') as h:\n        h.write('%d %r\\n' % (v, x))\n\n\nf = lambda x: (_log({v}, x), ['v{v}', x])[1]\n",
}
SRC["main"] = SRC["module"]
SRC["inplace"] = SRC["module"]      # module-level function of ONE file that every definition rewrites (edit in place + reload)
SRC["nosource"] = SRC["module"]     # __main__ function whose source cannot be read back (python -c / stdin / exec)
# the two versions differ ONLY in the indentation of the last assignment (inside / after the empty loop)
SRC["indent"] = ("{pad}import os\n\n\ndef f(x):\n    with open({log!r}, 'a') as h:\n        h.write('%r\\n' % (x,))\n"
                 "    r = ['v1', x]\n    for _ in ():\n        pass\n{ind}r = ['v2', x]\n    return r\n")


def main():
    spec = json.loads(sys.argv[1])
    warnings.simplefilter("ignore")
    import joblib
    kind = spec["kind"]; work = spec["work"]; log = spec.get("log") or os.path.join(work, "exec.log")
    # answers go to the real stdout; whatever a verbose Memory prints goes nowhere
    proto = os.fdopen(os.dup(1), "w"); sys.stdout = open(os.devnull, "w")
    vb = int(spec.get("verbose", 0))
    mems = {st: joblib.Memory(os.path.join(spec["root"], "store%s" % st), verbose=vb) for st in spec.get("stores", [1])}
    homonyms = set(spec.get("homonyms") or ())
    if homonyms:
        # ONE Memory object with a relative location, used from one working directory per store number: the same spelling
        # designates another directory each time
        for st in [1] + sorted(homonyms): os.makedirs(os.path.join(spec["root"], "h%s" % st), exist_ok=True)
        os.chdir(os.path.join(spec["root"], "h1"))
        shared = joblib.Memory("relstore", verbose=vb)
        mems = {st: shared for st in [1] + sorted(homonyms)}

    def enter(st):
        if homonyms: os.chdir(os.path.join(spec["root"], "h%s" % st))
    if spec.get("alias"):
        # these Memory objects are store 1 again, spelled as a relative path
        os.chdir(work)
        for st in spec["alias"]:
            mems[st] = joblib.Memory(os.path.relpath(os.path.join(spec["root"], "store1"), work), verbose=vb)
    objs = {}      # slot -> (function, {store: memorized})
    codes = {}     # version -> code object (for swaps)
    ndef = [0]

    def source_file(v, shift):
        ndef[0] += 1
        if kind == "main":
            path = os.path.join(work, "script.py")
        elif kind == "inplace":
            d = os.path.join(work, "inplace"); os.makedirs(d, exist_ok=True)
            path = os.path.join(d, "cachedmod.py")
        elif kind == "nosource":
            return "<string>", SRC[kind].format(pad="", log=log, v=v, ind="")
        else:
            d = os.path.join(work, "v%d_s%d" % (v, shift)); os.makedirs(d, exist_ok=True)
            path = os.path.join(d, "cachedmod.py")
        src = SRC[kind].format(pad="\n" * shift, log=log, v=v, ind=("        " if v == 1 else "    "))
        with open(path, "w") as h: h.write(src)
        linecache.checkcache(path)
        return path, src

    def define(v, shift=0):
        path, src = source_file(v, shift)
        ns = {"__name__": "__main__" if kind in ("main", "nosource") else "cachedmod", "__file__": path}
        if kind == "nosource": del ns["__file__"]
        exec(compile(src, path, "exec"), ns)
        return ns["f"]

    for line in sys.stdin:
        op = json.loads(line); rec = {}
        try:
            if op["op"] == "define":
                f = define(op["v"], op.get("shift", 0))
                wr = {}
                objs[op["i"]] = (f, {st: wr.setdefault(id(m), m.cache(f)) for st, m in mems.items()})
                codes[op["v"]] = f.__code__
            elif op["op"] == "swap":
                if op["v"] not in codes:
                    codes[op["v"]] = define(op["v"], 0).__code__
                elif kind in ("main", "inplace"):
                    # one script path for every version: the text on disk must be the one the swapped-in code object was
                    # compiled from (source look-up goes through the file), as when the user edits the script and reloads
                    source_file(op["v"], 0)
                objs[op["i"]][0].__code__ = codes[op["v"]]
            elif op["op"] == "call":
                before = os.path.getsize(log) if os.path.exists(log) else 0
                enter(op.get("s", 1))
                w = objs[op["i"]][1][op.get("s", 1)]
                if op.get("copy"):
                    # the wrapper travels (copy / pickle, as when it is sent to workers): the copy must behave like the original
                    import copy
                    w = copy.copy(w)
                rec["value"] = w(op["k"])
                after = os.path.getsize(log) if os.path.exists(log) else 0
                rec["executed"] = after > before
            elif op["op"] == "force":
                before = os.path.getsize(log) if os.path.exists(log) else 0
                enter(op.get("s", 1))
                rec["value"] = objs[op["i"]][1][op.get("s", 1)].call(op["k"])[0]
                after = os.path.getsize(log) if os.path.exists(log) else 0
                rec["executed"] = after > before
            elif op["op"] == "check":
                rec["value"] = bool(objs[op["i"]][1][op.get("s", 1)].check_call_in_cache(op["k"]))
            elif op["op"] == "clear":
                enter(op.get("s", 1))
                objs[op["i"]][1][op.get("s", 1)].clear(warn=False)
            elif op["op"] == "quit":
                break
            else:
                raise ValueError(op)
        except BaseException as e:
            rec["exc"] = type(e).__name__; rec["msg"] = str(e)[:300]
        proto.write(json.dumps(rec) + "\n"); proto.flush()


if __name__ == "__main__":
    main()
