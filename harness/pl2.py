"""L2: the real joblib.Parallel under a deterministic hand-off scheduler with REAL threads.

Threads: `caller` (runs the calls and consumes the outputs) and callback thread(s): one persistent thread
(`serial`, like every built-in backend) or one thread per completion (`concurrent`).  Exactly one thread runs
at a time; control changes hands only at yield points:
    acquire   outermost acquire of Parallel._lock (blocking on a held lock is emulated)
    release   outermost release
    next      inside the input iterator's __next__ (between PullIn and the item)
    submit    inside backend.submit
    sleep     the caller's poll (virtual clock)
    join      abort_everything/terminate waiting for the callback thread (AbortJoins backends)
plus environment steps `complete(batch)` that hand a finished batch to a callback thread.
A schedule is the sequence of choices made by the driver; runs are reproducible from (cfg, seed) or from an
explicit choice list.  Events of specs/ParallelAbs.tla are recorded in the order they happen (one thread runs
at a time, so the list order is the real order)."""
import threading, random, sys, types, time as _time, warnings
import multiprocessing as _mp
import joblib.parallel as jp
from joblib import Parallel, delayed
from joblib._parallel_backends import ParallelBackendBase
from harness.pl1 import Fut, TaskError, IterError, Hang, MODES, pre_tasks


class Sched:
    def __init__(self, chooser):
        self.chooser = chooser
        self.mu = threading.Condition()
        self.state = {}            # name -> 'parked' | 'running' | 'blocked' | 'done' | 'starting'
        self.where = {}
        self.turn = None
        self.choices = []          # (options, chosen)
        self.dead = False

    def me(self): return threading.current_thread().name

    def spawn(self, name, fn):
        def run():
            self.park(name, "start")
            try:
                fn()
            except SystemExit:
                pass
            finally:
                with self.mu:
                    self.state[name] = "done"; self.turn = None; self.mu.notify_all()
        with self.mu:
            self.state[name] = "starting"
        t = threading.Thread(target=run, name=name, daemon=True); t.start()
        return t

    def park(self, name, where, blocked=False):
        with self.mu:
            self.state[name] = "blocked" if blocked else "parked"
            self.where[name] = where
            if self.turn == name: self.turn = None
            self.mu.notify_all()
            while self.turn != name:
                if self.dead: raise SystemExit
                self.mu.wait(timeout=1.0)
            self.state[name] = "running"

    def yield_point(self, where):
        name = self.me()
        if name in self.state: self.park(name, where)

    def unblock_all(self):
        with self.mu:
            for n, s in self.state.items():
                if s == "blocked": self.state[n] = "parked"

    def run(self, env_options, env_do, max_steps=4000):
        for _ in range(max_steps):
            with self.mu:
                while self.turn is not None or any(s in ("running", "starting") for s in self.state.values()):
                    self.mu.wait(timeout=5)
                runnable = sorted(n for n, s in self.state.items() if s == "parked")
                alive = [n for n, s in self.state.items() if s != "done"]
            opts = [("t", n, self.where.get(n)) for n in runnable] + [("e", k, None) for k in env_options()]
            if not opts:
                if not alive: return "finished"
                self.kill(); return "deadlock:" + repr({n: (self.state[n], self.where.get(n)) for n in alive})
            c = 0
            if len(opts) > 1:
                c = self.chooser(opts); self.choices.append((len(opts), c))
            kind, who, _ = opts[c]
            if kind == "e":
                env_do(who)
            else:
                with self.mu:
                    self.turn = who; self.mu.notify_all()
        self.kill()
        return "step-limit"

    def kill(self):
        with self.mu:
            self.dead = True; self.mu.notify_all()


class SchedLock:
    def __init__(self, sched): self.s = sched; self.owner = None; self.depth = 0

    def __enter__(self):
        me = self.s.me()
        if self.owner == me:
            # re-entrant acquisition inside a critical section: a real thread can be pre-empted here too (the others then
            # block on the lock - unless they read the shared state without taking it)
            self.depth += 1; self.s.yield_point("reacquire"); return self
        self.s.yield_point("acquire")
        while self.owner is not None:
            self.s.park(me, "blocked-on-lock", blocked=True)
        self.owner = me; self.depth = 1
        return self

    def __exit__(self, *a):
        self.depth -= 1
        if self.depth == 0:
            self.owner = None
            self.s.unblock_all()
            self.s.yield_point("release")

    def acquire(self, *a, **k): self.__enter__(); return True
    def release(self): self.__exit__()


def run(cfg, chooser):
    """cfg as in pl1 plus: cbthreads 'serial' | 'concurrent', joins True|False.  Returns dict(events, status, choices, notes)."""
    events = []; notes = []
    ev = lambda **e: events.append(e)
    nj = cfg["nj"]
    maxb = max(cfg["bsizes"]) if cfg["bs"] == "auto" else cfg["bs"]
    serial = cfg.get("cbthreads", "serial") == "serial"
    joins = cfg.get("joins", True)
    s = Sched(chooser)
    tid = {"caller": 1}
    clock = [0.0]
    cur = {}

    def th():
        n = s.me()
        if n not in tid: tid[n] = len(tid) + 1
        return tid[n]

    rc = cfg.get("rc", True)

    class Ctl(ParallelBackendBase):
        # rc=False: legacy protocol with futures semantics - the result of a batch is available to the caller (blocking get()
        # through ParallelBackendBase.retrieve_result) as soon as the batch is done, its completion callback (which only
        # dispatches) is delivered later by a callback thread
        supports_retrieve_callback = rc
        supports_return_generator = True
        supports_timeout = True
        uses_threads = True; supports_sharedmem = True

        def __init__(b, **kw):
            super().__init__(**kw); b.pending = []; b.queue = []; b.busy = 0; b.ncb = 0; b.log = []

        def effective_n_jobs(b, n_jobs): return nj
        def configure(b, n_jobs=1, parallel=None, **kw): b.parallel = parallel; return nj
        def retrieve_result_callback(b, out): return out.get()
        def compute_batch_size(b): return cfg["bsizes"][len(events) % len(cfg["bsizes"])] if cfg["bs"] == "auto" else cfg["bs"]
        def batch_completed(b, *a): pass

        def submit(b, func, callback=None):
            f = Fut()
            if not rc: f.wait = b._wait
            idx = [it[1][0] for it in func.items]; tag = func.items[0][1][1]
            lo, hi = min(idx), max(idx) + 1
            ev(ev="Submit", c=tag, lo=lo, hi=hi)
            f.hang = tag == cur.get("callno") and any(i in cur["hang"] for i in idx)
            b.pending.append((func, callback, f, tag, lo, hi))
            s.yield_point("submit")
            return f

        def _wait(b, f, timeout=None):
            while not f.done:
                if not b.env_options():
                    if timeout is not None:
                        for _ in range(int(round(timeout / 0.01)) + 1):
                            clock[0] += 0.01; ev(ev="Poll")
                        raise TimeoutError()
                    if not b.busy and not b.queue: raise Hang()
                s.yield_point("sleep")

        def _wait_callbacks(b):
            if joins:
                while b.busy or b.queue:
                    s.yield_point("join")

        def abort_everything(b, ensure_ready=True):
            b.log.append("abort"); b._wait_callbacks()

        def terminate(b):
            b.log.append("terminate"); b._wait_callbacks()

        # environment: a worker finishes batch k; its callback is run by a callback thread
        def env_options(b):
            return [k for k, it in enumerate(b.pending) if not it[2].hang]

        def env_do(b, k):
            item = b.pending.pop(k)
            func, cb, f, tag, lo, hi = item
            try: f.r = func()
            except BaseException as e: f.e = e
            f.done = True
            if serial:
                b.queue.append(item)
                if "cb" not in s.state or s.state["cb"] == "done":
                    s.spawn("cb", b._serial_loop)
            else:
                b.ncb += 1; b.busy += 1
                s.spawn("cb%d" % b.ncb, lambda: b._deliver(item))

        def _serial_loop(b):
            while b.queue:
                item = b.queue.pop(0); b.busy += 1
                b._deliver(item)

        def _deliver(b, item):
            func, cb, f, tag, lo, hi = item
            try:
                cb(f)
            except BaseException as e:
                notes.append("callback raised " + repr(e)[:120])
            finally:
                b.busy -= 1
            ev(ev="CbEnd", c=tag, lo=lo, hi=hi, ok=f.e is None)

    be = Ctl()
    kw = {}
    if cfg.get("timeout") is not None: kw["timeout"] = cfg["timeout"]
    p = Parallel(n_jobs=nj, backend=be, batch_size=cfg["bs"], pre_dispatch=cfg["pre"], return_as=cfg["mode"], **kw)
    p._lock = SchedLock(s)
    idle = [0]

    def sleep(t):
        clock[0] += 0.01
        ev(ev="Poll")
        if not be.env_options() and not be.busy and not be.queue:
            idle[0] += 1
            lim = 3 if cfg.get("timeout") is None else int(cfg["timeout"] / 0.01) + 20
            if idle[0] > lim: raise Hang()
        else:
            idle[0] = 0
        s.yield_point("sleep")

    saved = jp.time
    jp.time = types.SimpleNamespace(time=lambda: clock[0], sleep=sleep)
    pre = pre_tasks(cfg["pre"], nj)

    def caller():
        for callno, cs in enumerate(cfg["calls"]):
            n = cs["n"]; iterfail = cs.get("iterfail")
            cur.update(callno=callno, hang=set(cs.get("hang", ())))

            def task(i, c):
                ev(ev="TStart", c=c, i=i)
                if i in set(cfg["calls"][c].get("fail", ())):
                    ev(ev="TEnd", c=c, i=i, ok=False); raise TaskError(c, i)
                ev(ev="TEnd", c=c, i=i, ok=True)
                return (c, i)

            class It:
                def __init__(q, c): q.c = c; q.i = 0
                def __iter__(q): return q
                def __next__(q):
                    me = th()
                    ev(ev="PullIn", c=q.c, th=me)
                    s.yield_point("next")
                    if iterfail is not None and q.i == iterfail:
                        ev(ev="PullRaise", c=q.c, th=me); q.i = n + 1
                        raise IterError(q.c)
                    if q.i >= n:
                        ev(ev="PullStop", c=q.c, th=me); raise StopIteration
                    i = q.i; q.i += 1
                    ev(ev="Pull", c=q.c, i=i, th=me)
                    return delayed(task)(i, q.c)

            ticks = -1 if cfg.get("timeout") is None else int(round(cfg["timeout"] / 0.01))
            ev(ev="CallStart", legacy=not rc, c=callno, n=n, mode=MODES[cfg["mode"]], nj=nj, maxb=maxb, pre=pre,
               bound=pre + 2 * nj * maxb, slack=(2 if serial else 1 + nj + 2), ticks=ticks, serial=serial)
            idle[0] = 0
            kind = None; ei = -1
            try:
                r = p(It(callno))
                if cfg["mode"] == "list":
                    for x in r: ev(ev="Yield", c=x[0], i=x[1])
                    kind = "returned"
                else:
                    closeat = cs.get("closeat")
                    k = 0
                    while True:
                        if closeat is not None and k == closeat:
                            ev(ev="Close"); r.close(); kind = "closed"; break
                        ev(ev="Next")
                        try:
                            x = next(r); ev(ev="Yield", c=x[0], i=x[1]); k += 1
                        except StopIteration:
                            kind = "returned"; break
            except TaskError as e:
                kind = "raised_task"; ei = e.args[1] if e.args[0] == callno else -1
            except IterError as e:
                kind = "raised_iter" if e.args[0] == callno else "other:IterErrorOfOtherCall"
            except (TimeoutError, _mp.TimeoutError):
                kind = "timeout"
            except Hang:
                kind = "hang"
            except SystemExit:
                raise
            except BaseException as e:
                kind = "other:" + type(e).__name__; notes.append(repr(e)[:200])
            ev(ev="End", kind=kind, i=ei)
            if kind == "hang": break

    s.spawn("caller", caller)
    try:
        status = s.run(be.env_options, be.env_do)
    finally:
        jp.time = saved
        s.kill()
    if status != "finished":
        notes.append(status[:300])
        events.append(dict(ev="End", kind="hang", i=-1))
    return dict(events=events, status=status, choices=[c for _, c in s.choices], notes=notes)


def random_run(cfg, seed, p_switch=0.5):
    """Random schedule with a bias: keep running the same thread with probability 1 - p_switch."""
    rng = random.Random(seed)
    last = [None]

    def chooser(opts):
        same = [k for k, o in enumerate(opts) if o[0] == "t" and o[1] == last[0]]
        # a polling caller must not starve the others
        if same and opts[same[0]][2] != "sleep" and rng.random() > p_switch:
            k = same[0]
        else:
            cand = [k for k, o in enumerate(opts) if not (o[0] == "t" and o[2] == "sleep")] or list(range(len(opts)))
            if rng.random() < 0.15: cand = list(range(len(opts)))
            k = rng.choice(cand)
        last[0] = opts[k][1] if opts[k][0] == "t" else last[0]
        return k
    with warnings.catch_warnings():
        warnings.simplefilter("ignore")
        return run(cfg, chooser)


def replay(cfg, choices):
    pos = [0]

    def chooser(opts):
        i = pos[0]; pos[0] += 1
        c = choices[i] if i < len(choices) else 0
        return c if c < len(opts) else 0
    with warnings.catch_warnings():
        warnings.simplefilter("ignore")
        return run(cfg, chooser)
