"""C18 worker: materialise stores as real cache directories, call Memory.reduce_size, report what was evicted.
argv[1] = JSON file {"base": dir, "cases": [{"n", "size": [...], "atime": [...], "bytes", "items", "age", "str": bool}, ...]} ; -1 = None."""
import sys, os, json, glob, shutil, datetime, warnings, time

U = 1024; D = 20000; NOW = 4       # D: one step of access time (5.5 h): the half-step safety margin stays below every time-zone offset used by the check


def main():
    job = json.load(open(sys.argv[1]))
    warnings.simplefilter("ignore")
    import joblib
    base = job["base"]
    count = [0]

    def f(x):
        count[0] += 1
        return ("value", x)
    f.__module__ = "evictmod"
    out = []
    # names of the cached function: also names that contain what looks like the directory of a result (32 hexadecimal digits), in
    # the middle or at the start (a name that IS 32 hexadecimal digits cannot be told from a result by its name: not used)
    NAMES = ["f", "step_0123456789abcdef0123456789abcdef", "f", "deadbeef0123456789abcdef01234567_v2", "f", "f"]
    for ci, case in enumerate(job["cases"]):
        root = os.path.join(base, "c%d" % ci)
        f.__name__ = f.__qualname__ = NAMES[(ci + int(case.get("name_shift", 0))) % len(NAMES)]
        mem = joblib.Memory(root, verbose=0)
        g = mem.cache(f)
        n = case["n"]; dirs = {}
        before = set()
        for i in range(1, n + 1):
            g(i)
            now = set(glob.glob(os.path.join(root, "joblib", "**", "output.pkl"), recursive=True))
            (new,) = now - before; before = now
            dirs[i] = os.path.dirname(new)
        t0 = time.time()
        for i in range(1, n + 1):
            d = dirs[i]; s = case["size"][i - 1]
            if s == 0:
                for fn in os.listdir(d): open(os.path.join(d, fn), "w").close()
            else:
                cur = sum(os.path.getsize(os.path.join(d, fn)) for fn in os.listdir(d))
                with open(os.path.join(d, "pad"), "wb") as h: h.write(b"\0" * (s * U - cur))
        for i in range(1, n + 1):
            ts = t0 - (NOW - case["atime"][i - 1]) * D
            for fn in os.listdir(dirs[i]): os.utime(os.path.join(dirs[i], fn), (ts, ts))
            os.utime(dirs[i], (ts, ts))
        # an entry whose writer was killed before the rename: same directory, same bytes, no output.pkl (only the temporary file)
        inc = case.get("incomplete") or 0
        if inc:
            os.rename(os.path.join(dirs[inc], "output.pkl"), os.path.join(dirs[inc], "output.pkl.thread-1-pid-1"))
            ts = t0 - (NOW - case["atime"][inc - 1]) * D
            os.utime(dirs[inc], (ts, ts))
        kw = {}
        if case["bytes"] != -1: kw["bytes_limit"] = ("%dK" % case["bytes"]) if case.get("str") else case["bytes"] * U
        if case["items"] != -1: kw["items_limit"] = case["items"]
        if case["age"] != -1: kw["age_limit"] = datetime.timedelta(seconds=max(0, case["age"] * D - D // 2))
        rec = {}
        try:
            mem.reduce_size(**kw)
            evicted = sorted(i for i in dirs if not os.path.exists(os.path.join(dirs[i], "output.pkl" if i != inc else "output.pkl.thread-1-pid-1")))
            partial = sorted(i for i in dirs if os.path.exists(dirs[i]) and i in evicted)
            rec["evicted"] = evicted; rec["leftover_dirs"] = partial
            # survivors stay loadable, evicted ones are recomputed on demand
            bad = []
            for i in range(1, n + 1):
                c0 = count[0]; v = g(i); ex = count[0] - c0
                if v != ("value", i): bad.append(["wrong_value", i])
                if i in evicted and ex != 1: bad.append(["evicted_not_recomputed", i])
                if i not in evicted and i != inc and case["size"][i - 1] > 0 and ex != 0: bad.append(["survivor_recomputed", i])
            rec["after"] = bad
        except BaseException as e:
            rec["exc"] = type(e).__name__; rec["msg"] = str(e)[:200]
        out.append(rec)
        shutil.rmtree(root, ignore_errors=True)
    json.dump(out, open(sys.argv[1] + ".out", "w"))


if __name__ == "__main__":
    main()
