"""C17 worker: replays programs generated from ConfigScope.tla on real threads.
argv[1] = JSON {"explicits": [...], "programs": [[{act, obs}, ...], ...]}.  Backends are recording subclasses registered through the
public register_parallel_backend under the names the defaults refer to, so no worker pool is ever started."""
import sys, json, threading, queue, warnings


def main():
    job = json.load(open(sys.argv[1]))
    warnings.simplefilter("ignore")
    import joblib
    from joblib import Parallel, parallel_config, parallel_backend, register_parallel_backend
    from joblib._parallel_backends import ThreadingBackend, ParallelBackendBase
    from joblib.parallel import get_active_backend

    seen = {}

    class RecThr(ParallelBackendBase):
        uses_threads = True; supports_sharedmem = True; supports_retrieve_callback = True
        kind = "thr"
        def effective_n_jobs(self, n_jobs): return max(1, n_jobs or 1)
        def configure(self, n_jobs=1, parallel=None, **kw):
            seen[id(parallel)] = dict(kw, n_jobs_arg=n_jobs, kind=self.kind); self.parallel = parallel; return self.effective_n_jobs(n_jobs)
        def submit(self, func, callback=None): raise RuntimeError("no work expected")

    class RecProc(RecThr):
        uses_threads = False; supports_sharedmem = False; kind = "proc"
    register_parallel_backend("threading", RecThr)
    if job.get("default_backend") != "nomp":
        register_parallel_backend("loky", RecProc)
        register_parallel_backend("multiprocessing", RecProc)
    else:
        # JOBLIB_MULTIPROCESSING=0: no process-based backend is registered in this interpreter
        from joblib.parallel import BACKENDS
        assert "loky" not in BACKENDS and "multiprocessing" not in BACKENDS, sorted(BACKENDS)
    if job.get("default_backend") == "thr":
        register_parallel_backend("threading", RecThr, make_default=True)

    def conv(k, v):
        if k == "b": return {"thr": "threading", "proc": "loky"}[v]
        if k == "nj": return int(v)
        if k == "vb": return int(v)
        if k in ("mx", "mm", "tf"): return None if v == "None" else v
        if k in ("pf", "rq"): return None if v == "None" else v
    NAMES = {"b": "backend", "nj": "n_jobs", "vb": "verbose", "mx": "max_nbytes", "mm": "mmap_mode", "tf": "temp_folder", "pf": "prefer", "rq": "require"}

    def kwargs_of(rec):
        return {NAMES[k]: conv(k, v) for k, v in rec.items() if v != "U"}

    def observe(e):
        try:
            p = Parallel(**kwargs_of(e))
        except ValueError:
            return {"kind": "ValueError"}
        with p:
            pass
        s = seen.pop(id(p), {})
        from joblib.disk import memstr_to_bytes
        return {"kind": "ok", "backend": s.get("kind"), "nj": p.n_jobs, "vb": p.verbose, "mx": s.get("max_nbytes"), "mm": s.get("mmap_mode"), "tf": s.get("temp_folder"),
                "pf": s.get("prefer"), "rq": s.get("require")}

    def expected(x):
        if x["kind"] != "ok": return {"kind": x["kind"]}
        pl = x["plain"]
        from joblib.disk import memstr_to_bytes
        mx = None if pl["mx"] == "None" else memstr_to_bytes(pl["mx"])
        return {"kind": "ok", "backend": x["backend"], "nj": 1 if pl["nj"] == "default" else int(pl["nj"]), "vb": int(pl["vb"]), "mx": mx,
                "mm": None if pl["mm"] == "None" else pl["mm"], "tf": None if pl["tf"] == "None" else pl["tf"]}

    out = []
    for pi, prog in enumerate(job["programs"]):
        problems = []
        nthreads = 2
        qs = {t: queue.Queue() for t in (1, 2)}; done = queue.Queue()

        def runner(t):
            stack = []
            while True:
                cmd = qs[t].get()
                if cmd is None: break
                res = None
                try:
                    if cmd[0] == "enter":
                        f = cmd[1]; kw = kwargs_of(f)
                        # alternate between the two context managers (parallel_backend requires a backend)
                        if set(kw) == {"backend", "n_jobs"} and cmd[2] % 2 == 0:
                            # the legacy context manager (its n_jobs defaults to -1, so it is only used when the frame sets n_jobs)
                            cm = parallel_backend(kw["backend"], n_jobs=kw["n_jobs"])
                        else:
                            cm = parallel_config(**kw)
                        cm.__enter__(); stack.append(("with", cm))
                    elif cmd[0] == "install":
                        # the configuration object used as a plain statement (no with block): active at once, never unregistered
                        kw = kwargs_of(cmd[1])
                        cm = parallel_backend(kw["backend"], n_jobs=kw["n_jobs"]) if set(kw) == {"backend", "n_jobs"} and cmd[2] % 2 == 0 else parallel_config(**kw)
                        stack.append(("loose", cm))
                    elif cmd[0] == "fail_enter":
                        kw = kwargs_of(cmd[1]); kw["backend"] = "no_such_backend"
                        try:
                            (parallel_backend(kw["backend"], n_jobs=kw.get("n_jobs", 2)) if cmd[2] % 3 == 0 else parallel_config(**kw))
                            res = {"exc": "a context naming an unknown backend was constructed"}
                        except ValueError:
                            pass
                    elif cmd[0] == "exit":
                        kind_, cm = stack.pop()
                        while kind_ == "loose": kind_, cm = stack.pop()        # leaving the innermost with block
                        if cmd[1] == "exception":
                            try: raise KeyError("user error")
                            except KeyError: cm.__exit__(*sys.exc_info())
                        else: cm.__exit__(None, None, None)
                    elif cmd[0] == "observe":
                        if cmd[1]:
                            # reversed order of the explicit variants (what one construction leaves behind - e.g. a name bound on
                            # first use - must not change what a later one resolves to)
                            res = [observe(e) for e in reversed(job["explicits"])][::-1]
                        else:
                            res = [observe(e) for e in job["explicits"]]
                except BaseException as ex:
                    res = {"exc": repr(ex)[:200]}
                done.put(res)
            for kind_, cm in reversed(stack):
                if kind_ == "with": cm.__exit__(None, None, None)
                else: cm.unregister()
        ths = {t: threading.Thread(target=runner, args=(t,)) for t in (1, 2)}
        for t in ths.values(): t.start()
        for step, e in enumerate(prog):
            a = e["act"]
            qs[a["t"]].put((a["op"], a["f"], step) if a["op"] in ("enter", "fail_enter", "install") else ("exit", a["how"]))
            r = done.get()
            if isinstance(r, dict): problems.append({"step": step, "kind": "action_raised", "detail": r["exc"]}); break
            for t in (1, 2):
                qs[t].put(("observe", pi % 2 == 0 and job.get("default_backend") == "nomp")); got = done.get()
                if isinstance(got, dict): problems.append({"step": step, "kind": "observe_raised", "thread": t, "detail": got["exc"]}); continue
                for i, (g, x) in enumerate(zip(got, e["obs"][t - 1])):
                    w = expected(x)
                    if g["kind"] != w["kind"]:
                        problems.append({"step": step, "thread": t, "explicit": i, "key": "outcome", "got": g["kind"], "want": w["kind"]}); continue
                    if w["kind"] != "ok": continue
                    for k in ("backend", "nj", "vb", "mx", "mm", "tf"):
                        if g[k] != w[k]:
                            problems.append({"step": step, "thread": t, "explicit": i, "key": k, "got": g[k], "want": w[k], "forced_threads": x.get("forced", False),
                                             "acting_thread": a["t"]})
        for t in (1, 2): qs[t].put(None)
        for t in ths.values(): t.join()
        out.append({"i": pi, "problems": problems[:20]})
    json.dump(out, open(sys.argv[1] + ".out", "w"))


if __name__ == "__main__":
    main()
