"""C13 worker: replay operation sequences generated from ZlibStream.tla on joblib's BinaryZlibFile / BinaryGzipFile.
argv[1] = JSON {"S": n, "NL": [...], "kind": "rand"|"zeros", "hists": [[op records]...], "classes": [...], "levels": [...]}"""
import sys, json, io, zlib, gzip, random


def payload(S, NL, kind):
    rng = random.Random(S * 7 + len(NL))
    b = bytearray(rng.getrandbits(8) if kind == "rand" else 0x41 for _ in range(S)) if S < 200000 else bytearray(S)
    for i in range(S):
        if b[i] == 10: b[i] = 11
    for x in NL:
        if x < S: b[x] = 10
    return bytes(b)


class Pieces(io.RawIOBase):
    """an unbuffered, seekable source that hands the compressed bytes out a few at a time (pipe, socket, throttled stream)"""
    def __init__(self, data, piece): self.b = io.BytesIO(data); self.piece = piece
    def readable(self): return True
    def seekable(self): return True
    def readinto(self, buf):
        chunk = self.b.read(min(len(buf), self.piece)); buf[:len(chunk)] = chunk; return len(chunk)
    def seek(self, *a): return self.b.seek(*a)
    def tell(self): return self.b.tell()


def main():
    job = json.load(open(sys.argv[1]))
    from joblib.compressor import BinaryZlibFile, BinaryGzipFile
    cls = {"zlib": BinaryZlibFile, "gzip": BinaryGzipFile}
    S = job["S"]; data = payload(S, job["NL"], job["kind"])
    bad = []; n = 0
    for cname in job["classes"]:
        for level in job["levels"]:
            raw = zlib.compress(data, level) if cname == "zlib" else gzip.compress(data, compresslevel=level)
            for hi, hist in enumerate(job["hists"]):
                # (pieces of a few bytes for small payloads, of a fraction of the 8 KiB block for large ones: a rewind re-reads everything)
                src = io.BytesIO(raw) if hi % 3 != 1 else Pieces(raw, max(3 + hi % 5, len(raw) // 24))
                f = cls[cname](src, "rb"); ref = io.BytesIO(data); n += 1
                try:
                    for k, e in enumerate(hist):
                        op = e["op"]; exp = data[e["from"]:e["to"]]
                        if op == "read": got = f.read(e["a"]); r2 = ref.read(e["a"])
                        elif op == "readall": got = f.read(); r2 = ref.read()
                        elif op == "readinto":
                            # destination buffers of several shapes: plain bytes, items wider than one byte, a 2-d view
                            na = e["a"]; shape = (hi + k) % 3
                            if shape == 1 and na % 4 == 0 and na > 0:
                                import array
                                buf = array.array("I", bytes(na)); m = f.readinto(buf); got = buf.tobytes()[:m]
                            elif shape == 2 and na % 2 == 0 and na > 0:
                                raw2 = bytearray(na); m = f.readinto(memoryview(raw2).cast("B", (na // 2, 2))); got = bytes(raw2[:m])
                            else:
                                buf = bytearray(na); m = f.readinto(buf); got = bytes(buf[:m])
                            b2 = bytearray(e["a"]); m2 = ref.readinto(b2); r2 = bytes(b2[:m2])
                        elif op == "readline": got = f.readline(); r2 = ref.readline()
                        elif op == "tell": got = f.tell(); exp = e["from"]; r2 = ref.tell()
                        elif op == "seek":
                            got = f.seek(e["a"], e["b"]); exp = e["from"]
                            r2 = min(ref.seek(e["a"], e["b"]), S); ref.seek(r2)
                        if got != exp or r2 != exp:
                            bad.append({"class": cname, "level": level, "hist": hist[:k + 1], "step": k, "got": (got if isinstance(got, int) else [len(got), got[:8].hex()]),
                                        "spec": (exp if isinstance(exp, int) else [len(exp), exp[:8].hex()]), "reference_agrees_with_spec": r2 == exp})
                            break
                        if f.tell() != e["to"]:
                            bad.append({"class": cname, "level": level, "hist": hist[:k + 1], "step": k, "got": "tell=%d" % f.tell(), "spec": "pos=%d" % e["to"]}); break
                except Exception as ex:
                    bad.append({"class": cname, "level": level, "hist": hist, "exc": repr(ex)[:200]})
                f.close()
    json.dump({"n": n, "bad": bad[:50], "nbad": len(bad)}, open(sys.argv[1] + ".out", "w"))


if __name__ == "__main__":
    main()
