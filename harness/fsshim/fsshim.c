/* LD_PRELOAD interposer with a controller handshake (C05 crash injection, C11 turn-based scheduling).
 * For every intercepted call on a path under $VERIF_FS_ROOT the process sends one line
 *   "<pid> <tid> <op> <path> [<path2>|<nbytes>]\n"
 * over a Unix stream socket ($VERIF_FS_SOCK) and waits for a 1-line verdict:
 *   "G\n"      go ahead
 *   "K\n"      crash now (before the call):  _exit(137)
 *   "T<n>\n"   (write only) write n bytes, then _exit(137)
 */
#define _GNU_SOURCE
#include <dlfcn.h>
#include <errno.h>
#include <fcntl.h>
#include <pthread.h>
#include <stdarg.h>
#include <stdio.h>
#include <stdlib.h>
#include <string.h>
#include <sys/socket.h>
#include <sys/stat.h>
#include <sys/syscall.h>
#include <sys/types.h>
#include <sys/un.h>
#include <unistd.h>

/* one controller connection per thread, so that threads of one process are scheduled independently */
static __thread int sock = -1;
static __thread pid_t sock_pid = 0;
static __thread int inside = 0;

#define REAL(name) static __typeof__(name) *real_##name; if (!real_##name) real_##name = dlsym(RTLD_NEXT, #name)

static const char *root(void) { return getenv("VERIF_FS_ROOT"); }
static int under(const char *p) { const char *r = root(); return r && p && strncmp(p, r, strlen(r)) == 0; }

static int fd_path(int fd, char *buf, size_t n) {
    char l[64]; snprintf(l, sizeof l, "/proc/self/fd/%d", fd);
    ssize_t k = readlink(l, buf, n - 1); if (k <= 0) return 0; buf[k] = 0; return 1;
}

static void ensure_sock(void) {
    pid_t me = getpid();
    if (sock >= 0 && sock_pid == me) return;
    const char *sp = getenv("VERIF_FS_SOCK"); if (!sp) return;
    REAL(socket); REAL(connect);
    int s = real_socket(AF_UNIX, SOCK_STREAM | SOCK_CLOEXEC, 0);
    struct sockaddr_un a; memset(&a, 0, sizeof a); a.sun_family = AF_UNIX; strncpy(a.sun_path, sp, sizeof a.sun_path - 1);
    if (real_connect(s, (struct sockaddr *)&a, sizeof a) != 0) { close(s); return; }
    sock = s; sock_pid = me;
}

/* returns 'G', 'K' or 'T' (with *n set) */
static char ask(const char *op, const char *p1, const char *p2, long nbytes, long *n) {
    char line[2300], rep[32]; char verdict = 'G';
    if (inside) return 'G';
    inside = 1;
    ensure_sock();
    if (sock >= 0) {
        REAL(write); REAL(read);
        int len = snprintf(line, sizeof line, "%d %ld %s %s %s%ld\n", (int)getpid(), (long)syscall(SYS_gettid), op, p1, p2 ? p2 : "", p2 ? 0L : nbytes);
        if (p2) len = snprintf(line, sizeof line, "%d %ld %s %s %s\n", (int)getpid(), (long)syscall(SYS_gettid), op, p1, p2);
        if (real_write(sock, line, len) == len) {
            int k = 0; char c;
            while (k < (int)sizeof rep - 1 && real_read(sock, &c, 1) == 1 && c != '\n') rep[k++] = c;
            rep[k] = 0;
            if (k > 0) { verdict = rep[0]; if (verdict == 'T' && n) *n = atol(rep + 1); }
        }
    }
    inside = 0;
    if (verdict == 'K') _exit(137);
    return verdict;
}

int rename(const char *a, const char *b) { REAL(rename); if (under(a) || under(b)) ask("rename", a, b, 0, 0); return real_rename(a, b); }
int mkdir(const char *a, mode_t m) { REAL(mkdir); if (under(a)) ask("mkdir", a, 0, 0, 0); return real_mkdir(a, m); }
int rmdir(const char *a) { REAL(rmdir); if (under(a)) ask("rmdir", a, 0, 0, 0); return real_rmdir(a); }
int unlink(const char *a) { REAL(unlink); if (under(a)) ask("unlink", a, 0, 0, 0); return real_unlink(a); }
int unlinkat(int d, const char *a, int f) {
    REAL(unlinkat); char dir[1024], full[2200];
    if (a && a[0] == '/') snprintf(full, sizeof full, "%s", a);
    else if (d != AT_FDCWD && fd_path(d, dir, sizeof dir)) snprintf(full, sizeof full, "%s/%s", dir, a);
    else full[0] = 0;
    if (under(full)) ask(f & AT_REMOVEDIR ? "rmdir" : "unlink", full, 0, 0, 0);
    return real_unlinkat(d, a, f);
}
static int do_open(const char *which, const char *p, int fl, mode_t m) {
    static int (*ro)(const char *, int, ...), (*ro64)(const char *, int, ...);
    if (!ro) ro = dlsym(RTLD_NEXT, "open"); if (!ro64) ro64 = dlsym(RTLD_NEXT, "open64");
    if (under(p)) ask((fl & (O_WRONLY | O_RDWR)) ? ((fl & O_TRUNC) ? "open_trunc" : "open_w") : ((fl & O_DIRECTORY) ? "open_dir" : "open_r"), p, 0, 0, 0);
    return which[4] == '6' ? ro64(p, fl, m) : ro(p, fl, m);
}
int open(const char *p, int fl, ...) { mode_t m = 0; if (fl & (O_CREAT | O_TMPFILE)) { va_list ap; va_start(ap, fl); m = va_arg(ap, int); va_end(ap); } return do_open("open", p, fl, m); }
int open64(const char *p, int fl, ...) { mode_t m = 0; if (fl & (O_CREAT | O_TMPFILE)) { va_list ap; va_start(ap, fl); m = va_arg(ap, int); va_end(ap); } return do_open("open64", p, fl, m); }
int openat(int d, const char *p, int fl, ...) {
    static int (*r)(int, const char *, int, ...); if (!r) r = dlsym(RTLD_NEXT, "openat");
    mode_t m = 0; if (fl & (O_CREAT | O_TMPFILE)) { va_list ap; va_start(ap, fl); m = va_arg(ap, int); va_end(ap); }
    char dir[1024], full[2200];
    if (p && p[0] == '/') snprintf(full, sizeof full, "%s", p);
    else if (d != AT_FDCWD && fd_path(d, dir, sizeof dir)) snprintf(full, sizeof full, "%s/%s", dir, p);
    else full[0] = 0;
    if (under(full) && (fl & (O_WRONLY | O_RDWR))) ask((fl & O_TRUNC) ? "open_trunc" : "open_w", full, 0, 0, 0);
    else if (under(full)) ask((fl & O_DIRECTORY) ? "open_dir" : "open_r", full, 0, 0, 0);
    return r(d, p, fl, m);
}
ssize_t write(int fd, const void *b, size_t n) {
    REAL(write);
    if (fd > 2 && !inside) {
        char t[1024];
        if (fd_path(fd, t, sizeof t) && under(t)) {
            long k = 0; char v = ask("write", t, 0, (long)n, &k);
            if (v == 'T') { if (k > 0) real_write(fd, b, (size_t)k < n ? (size_t)k : n); _exit(137); }
        }
    }
    return real_write(fd, b, n);
}

/* existence tests: without these an existence test is glued to the preceding call and check-then-act
 * windows could only be opened after the test */
struct statx;
static void at_path(int d, const char *a, char *full, size_t n) {
    char dir[1024];
    if (a && a[0] == '/') snprintf(full, n, "%s", a);
    else if (d != AT_FDCWD && a && fd_path(d, dir, sizeof dir)) snprintf(full, n, "%s/%s", dir, a);
    else full[0] = 0;
}
int stat(const char *p, struct stat *b) { REAL(stat); if (under(p)) ask("stat", p, 0, 0, 0); return real_stat(p, b); }
int lstat(const char *p, struct stat *b) { REAL(lstat); if (under(p)) ask("stat", p, 0, 0, 0); return real_lstat(p, b); }
int stat64(const char *p, struct stat64 *b) { REAL(stat64); if (under(p)) ask("stat", p, 0, 0, 0); return real_stat64(p, b); }
int lstat64(const char *p, struct stat64 *b) { REAL(lstat64); if (under(p)) ask("stat", p, 0, 0, 0); return real_lstat64(p, b); }
int fstatat(int d, const char *p, struct stat *b, int f) {
    REAL(fstatat); char full[2200]; at_path(d, p, full, sizeof full);
    if (p && p[0] && under(full)) ask("stat", full, 0, 0, 0);
    return real_fstatat(d, p, b, f);
}
int fstatat64(int d, const char *p, struct stat64 *b, int f) {
    REAL(fstatat64); char full[2200]; at_path(d, p, full, sizeof full);
    if (p && p[0] && under(full)) ask("stat", full, 0, 0, 0);
    return real_fstatat64(d, p, b, f);
}
int statx(int d, const char *p, int fl, unsigned int mask, struct statx *b) {
    static int (*r)(int, const char *, int, unsigned int, struct statx *); if (!r) r = dlsym(RTLD_NEXT, "statx");
    char full[2200]; at_path(d, p, full, sizeof full);
    if (p && p[0] && under(full)) ask("stat", full, 0, 0, 0);
    return r(d, p, fl, mask, b);
}
int access(const char *p, int m) { REAL(access); if (under(p)) ask("stat", p, 0, 0, 0); return real_access(p, m); }
int faccessat(int d, const char *p, int m, int f) {
    REAL(faccessat); char full[2200]; at_path(d, p, full, sizeof full);
    if (under(full)) ask("stat", full, 0, 0, 0);
    return real_faccessat(d, p, m, f);
}
int utimensat(int d, const char *p, const struct timespec t[2], int f) {
    REAL(utimensat); char full[2200]; at_path(d, p, full, sizeof full);
    if (p && under(full)) ask("utime", full, 0, 0, 0);
    return real_utimensat(d, p, t, f);
}
