"""C20, client side: replays request sequences of ResourceTracker.tla through the PUBLIC client API of loky's resource tracker
(resource_tracker.register / maybe_unlink / unregister, ensure_running and the tracker process it spawns), from real client
processes: client 1 is this process, client 2 a forked child that inherited the tracker's pipe.  "GONE" = the client closes its
end (child: exits; with `kill` in the job: SIGKILL).  After every request a sentinel barrier (register + maybe_unlink of a fresh
file through the same client) proves the tracker has processed it; then the set of existing paths must be the model's.
argv[1] = JSON {"dir":, "hists": [...], "kill": bool};  one fresh interpreter per history (the tracker is per process tree)."""
import sys, os, json, time, shutil, signal, subprocess


def session(spec):
    import warnings; warnings.simplefilter("ignore")
    import joblib  # noqa: F401  (registers joblib's clean-up function for files)
    from joblib.externals.loky.backend import resource_tracker as rt
    d = spec["dir"]; hist = spec["hist"]
    os.makedirs(os.path.join(d, "d", "e")); os.makedirs(os.path.join(d, "h"))
    paths = {"f1": os.path.join(d, "f1"), "f2": os.path.join(d, "f2"), "d": os.path.join(d, "d"), "g": os.path.join(d, "d", "g"),
             "e": os.path.join(d, "d", "e"), "h": os.path.join(d, "h")}
    for n in ("f1", "f2", "g"): open(paths[n], "w").write("x")
    if spec.get("verbose"):
        rt.VERBOSE = 1                      # a chatty tracker (its messages go to stderr) must behave like a silent one
    rt.ensure_running()
    tracker_pid = rt._resource_tracker._pid
    if spec.get("early_signal"):
        # a signal sent to the whole process group (Ctrl-C, kill -TERM -pgid) while the tracker is still starting up: the
        # tracker ignores SIGINT / SIGTERM, whenever they arrive
        os.kill(tracker_pid, signal.SIGTERM); os.kill(tracker_pid, signal.SIGINT)
    rec = {"problems": [], "synced": 0, "tracker_pid": tracker_pid}
    nsent = [0]

    def do(cmd, x):
        rtype = "folder" if x in ("d", "e", "h") else "file"
        if cmd == "REGISTER": rt.register(paths[x], rtype)
        elif cmd == "UNREGISTER": rt.unregister(paths[x], rtype)
        elif cmd == "MAYBE_UNLINK": rt.maybe_unlink(paths[x], rtype)
        elif cmd == "GARBAGE": os.write(rt._resource_tracker._fd, b"NOCOLON\n")

    def barrier(tag):
        nsent[0] += 1
        s = os.path.join(d, "sentinel_%s_%d" % (tag, nsent[0])); open(s, "w").close()
        rt.register(s, "file"); rt.maybe_unlink(s, "file")
        t0 = time.time()
        while os.path.exists(s):
            if time.time() - t0 > 10: return False
            time.sleep(0.0003)
        return True

    # client 2: forked child driven through a pipe (inherits the tracker's descriptor)
    c2r, c2w = os.pipe(); a2r, a2w = os.pipe()
    child = os.fork()
    if child == 0:
        os.close(c2w); os.close(a2r)
        f = os.fdopen(c2r, "r")
        for line in f:
            m = json.loads(line)
            if m["cmd"] == "EXIT": break
            try:
                do(m["cmd"], m["x"]); ok = barrier("c2")
            except BaseException as e:
                ok = "exc:" + repr(e)[:100]
            os.write(a2w, (json.dumps(ok) + "\n").encode())
        os._exit(0)
    os.close(c2r); os.close(a2w)
    ack = os.fdopen(a2r, "r")
    open_clients = {1, 2}
    k = 0; dead = False
    for k, e in enumerate(hist):
        cmd = e["cmd"]
        if cmd == "EOF": break
        if cmd == "CREATE":
            if e["x"] in ("d", "e", "h"): os.makedirs(paths[e["x"]], exist_ok=True)
            else: open(paths[e["x"]], "w").write("again")
            continue
        c = e["c"]
        if cmd == "GONE":
            if c == 2:
                if spec.get("kill"): os.kill(child, signal.SIGKILL)
                else: os.write(c2w, b'{"cmd": "EXIT"}\n')
                os.waitpid(child, 0)
            else:
                os.close(rt._resource_tracker._fd); rt._resource_tracker._fd = None      # client 1 lets go of the tracker
            open_clients.discard(c); continue
        if c not in open_clients: continue
        if c == 1:
            try:
                do(cmd, e["x"]); ok = barrier("c1")
            except BaseException as ex:
                ok = "exc:" + repr(ex)[:100]
        else:
            os.write(c2w, (json.dumps({"cmd": cmd, "x": e["x"]}) + "\n").encode())
            line = ack.readline(); ok = json.loads(line) if line else "child died"
        if ok is not True:
            rec["problems"].append({"kind": "tracker_stopped" if ok is False else "client_error", "step": k, "after": [cmd, e["x"]], "detail": ok}); dead = True; break
        rec["synced"] += 1
        ex = {n for n, p in paths.items() if os.path.exists(p)}
        if ex != set(e["ex"]):
            rec["problems"].append({"kind": "existence", "step": k, "after": [c, cmd, e["x"]], "on_disk": sorted(ex), "spec": sorted(e["ex"])}); break
    # everybody goes away
    last = None
    for e in hist:
        if e["cmd"] not in ("EOF",): last = e
    if 2 in open_clients:
        try: os.write(c2w, b'{"cmd": "EXIT"}\n'); os.waitpid(child, 0)
        except OSError: pass
    if 1 in open_clients and rt._resource_tracker._fd is not None:
        os.close(rt._resource_tracker._fd); rt._resource_tracker._fd = None
    if not dead and not rec["problems"] and last is not None:
        t0 = time.time()
        while True:
            try:
                p, st = os.waitpid(tracker_pid, os.WNOHANG)
                if p != 0: break
            except OSError:
                break
            if time.time() - t0 > 10:
                rec["problems"].append({"kind": "tracker_does_not_exit"}); break
            time.sleep(0.001)
        cnt = last["cnt"]; ex0 = set(last["ex"])
        gone = {n for n in cnt if cnt[n] > 0}
        if "d" in gone: gone.update(("g", "e"))
        want = ex0 - gone
        ex = {n for n, p in paths.items() if os.path.exists(p)}
        if ex != want and not rec["problems"]:
            rec["problems"].append({"kind": "final_cleanup", "on_disk": sorted(ex), "spec": sorted(want), "counts": cnt})
    return rec


def main():
    job = json.load(open(sys.argv[1]))
    if "hist" in job:          # one session in this fresh interpreter
        r = session(job)
        json.dump(r, open(sys.argv[1] + ".out", "w")); os._exit(0)
    out = []
    for hi, hist in enumerate(job["hists"]):
        d = os.path.join(job["dir"], "a%d" % hi); os.makedirs(d)
        jf = os.path.join(d, "s.json"); json.dump({"dir": os.path.join(d, "w"), "hist": hist, "kill": bool(job.get("kill")) and hi % 2 == 1, "early_signal": hi % 4 == 0, "verbose": hi % 4 == 2}, open(jf, "w"))
        os.makedirs(os.path.join(d, "w"))
        with open(os.path.join(d, "log"), "w") as lf:
            try: subprocess.run([sys.executable, __file__, jf], stdout=lf, stderr=lf, stdin=subprocess.DEVNULL, timeout=60)
            except subprocess.TimeoutExpired: pass
        if os.path.exists(jf + ".out"): r = json.load(open(jf + ".out"))
        else: r = {"problems": [{"kind": "session_died", "log": open(os.path.join(d, "log")).read()[-300:]}], "synced": 0}
        r["i"] = hi; out.append(r)
        shutil.rmtree(d, ignore_errors=True)
    json.dump(out, open(sys.argv[1] + ".out", "w"))


if __name__ == "__main__":
    main()
