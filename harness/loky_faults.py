"""C10 driver: one fault scenario against the real loky backend, in its own process.
argv[1] = JSON scenario:
  {"stage": "task_start"|"mid_task"|"arg_unpickle"|"result_pickle"|"sending"|"idle"|"cold_single", "signal": "KILL"|"TERM"|"SEGV"|"exit"|"RT",
   "victims": 1|2, "managed": bool, "n_jobs": 2, "dir": scratch}
Sequence of calls on ONE Parallel object: call A (healthy), call B (the fault strikes), call C (same object), call D (a new Parallel).
Output: per call {"outcome": "ok"|"terminated"|"other:<type>"|"HANG", "correct": bool, "seconds": t, "pids": [...]}."""
import sys, os, json, time, signal, threading, warnings, faulthandler

WATCHDOG = 40


def sig_of(name):
    return {"KILL": signal.SIGKILL, "TERM": signal.SIGTERM, "SEGV": signal.SIGSEGV, "RT": signal.SIGRTMIN + 1}.get(name)


def die(name):
    if name == "exit":
        os._exit(1)
    if name == "SEGV":
        faulthandler.disable()
    os.kill(os.getpid(), sig_of(name))
    time.sleep(30)


def ident(pid=None):
    """a process identity that survives pid reuse: pid + start time (field 22 of /proc/<pid>/stat)"""
    try:
        st = open("/proc/%s/stat" % (pid or "self")).read().rsplit(")", 1)[1].split()[19]
    except (OSError, IndexError):
        return None
    return "%d:%s" % (pid or os.getpid(), st)


class KillOnUnpickle:
    """argument whose unpickling (in the worker) kills the worker"""
    def __init__(self, how): self.how = how
    def __reduce__(self): return (die, (self.how,))


class KillOnPickle:
    """result whose pickling (in the worker) kills the worker"""
    def __init__(self, how): self.how = how
    def __reduce__(self):
        die(self.how)
        return (int, ())


def task(i, d, mode, how, tag, payload=None):
    pid = os.getpid()
    open(os.path.join(d, "pid_%s_%d_%d" % (tag, i, pid)), "w").close()
    if mode == "self" :
        die(how)
    if mode in ("child_block", "nested_block"):
        # this worker has child processes of its own (a helper subprocess / the workers of a nested loky call) while another one dies
        if mode == "child_block":
            import subprocess
            subprocess.Popen([sys.executable, "-c", "import time; time.sleep(30)", d + "/"], stdin=subprocess.DEVNULL)
            open(os.path.join(d, "haschild_%d" % pid), "w").close()
            t0 = time.time()
            while time.time() - t0 < 30: time.sleep(0.01)
        else:
            from joblib import Parallel, delayed
            Parallel(n_jobs=2, backend="loky")(delayed(task)(j, d, "inner_block", how, tag + "i") for j in range(2))
        return (tag, i, ident())
    if mode == "inner_block":
        open(os.path.join(d, "haschild_%d" % pid), "w").close()
        t0 = time.time()
        while time.time() - t0 < 30: time.sleep(0.01)
    if mode == "self_when_children":
        t0 = time.time()
        while time.time() - t0 < 20 and not any(f.startswith("haschild_") for f in os.listdir(d)): time.sleep(0.01)
        time.sleep(0.1)
        die(how)
    if mode == "block":
        open(os.path.join(d, "blocked_%d" % pid), "w").close()
        t0 = time.time()
        while time.time() - t0 < 30: time.sleep(0.01)
    if mode == "result":
        return KillOnPickle(how)
    if mode == "big":
        open(os.path.join(d, "sending_%d" % pid), "w").close()
        return b"x" * (60 * 2 ** 20)
    return (tag, i, ident())


def run_call(p, items, out, name):
    from joblib import delayed
    t0 = time.time(); rec = {"name": name, "t0": t0}
    res = {}

    def target():
        try:
            res["r"] = p(delayed(task)(*it) for it in items)
        except BaseException as e:
            res["e"] = e
    th = threading.Thread(target=target, daemon=True); th.start(); th.join(WATCHDOG)
    rec["seconds"] = round(time.time() - t0, 2)
    if th.is_alive():
        rec["outcome"] = "HANG"
    elif "e" in res:
        n = type(res["e"]).__name__
        rec["outcome"] = "terminated" if n in ("TerminatedWorkerError", "BrokenProcessPool") else "other:" + n
        rec["msg"] = str(res["e"])[:150]
    else:
        rec["outcome"] = "ok"
        r = res["r"]
        rec["correct"] = all(isinstance(x, tuple) and x[0] == it[4] and x[1] == it[0] for x, it in zip(r, items)) and len(r) == len(items)
        rec["pids"] = sorted({x[2] for x in r if isinstance(x, tuple)})
    out.append(rec)
    return rec


def main():
    sc = json.load(open(sys.argv[1]))
    warnings.simplefilter("ignore")
    from joblib import Parallel
    d = sc["dir"]; os.makedirs(d, exist_ok=True)
    nj = sc.get("n_jobs", 2); how = sc["signal"]; stage = sc["stage"]
    out = []; killed = []
    if sc.get("sigchld") == "ign":
        # the application does not want zombies: children are reaped by the kernel, their exit status cannot be collected
        signal.signal(signal.SIGCHLD, signal.SIG_IGN)
    elif sc.get("sigchld") == "reaper":
        # another component of the process reaps every child (os.waitpid(-1)): exit statuses are stolen from multiprocessing
        def reaper():
            while True:
                try:
                    while os.waitpid(-1, os.WNOHANG)[0]: pass
                except OSError: pass
                time.sleep(0.001)
        threading.Thread(target=reaper, daemon=True).start()

    def kill_ident(who):
        """kill the worker with that identity (if its pid still belongs to it)"""
        pid = int(who.split(":")[0])
        if ident(pid) != who: return
        try: os.kill(pid, sig_of(how) or signal.SIGKILL); killed.append([who, time.time()])
        except OSError: pass

    def killer(prefix, count):
        """kill `count` workers that announced themselves with a file <prefix>_<pid>"""
        t0 = time.time(); done = set()
        while time.time() - t0 < 20 and len(done) < count:
            for f in os.listdir(d):
                if f.startswith(prefix):
                    pid = int(f.rsplit("_", 1)[1])
                    if pid not in done and len(done) < count:
                        if stage == "sending": time.sleep(0.05)
                        who = ident(pid)
                        try: os.kill(pid, sig_of(how) or signal.SIGKILL); done.add(pid); killed.append([who, time.time()])
                        except OSError: done.add(pid)
            time.sleep(0.005)
    p = Parallel(n_jobs=nj, backend="loky", **({"pre_dispatch": 1} if stage == "cold_single" else {"pre_dispatch": "all"} if stage == "big_args" else {"batch_size": 1} if stage in ("has_child", "has_nested") else {}))
    ctx = p if sc.get("managed") else None
    if ctx is not None: p.__enter__()
    try:
        n = 6
        if stage != "cold_single":
            a = run_call(p, [(i, d, "ok", how, "A") for i in range(n)], out, "A")
        # ---- the fault
        victims = sc.get("victims", 1)
        if stage == "task_start":
            items = [(i, d, "self" if i < victims else "ok", how, "B") for i in range(n)]
        elif stage == "mid_task":
            items = [(i, d, "block" if i < victims else "ok", how, "B") for i in range(n)]
            threading.Thread(target=killer, args=("blocked", victims), daemon=True).start()
        elif stage == "arg_unpickle":
            items = [(i, d, "ok", how, "B") for i in range(n)]
            items[0] = (KillOnUnpickle(how), d, "ok", how, "B")
        elif stage == "result_pickle":
            items = [(i, d, "result" if i < victims else "ok", how, "B") for i in range(n)]
        elif stage == "sending":
            items = [(i, d, "big" if i < victims else "ok", how, "B") for i in range(n)]
            threading.Thread(target=killer, args=("sending", victims), daemon=True).start()
        elif stage == "idle_flag_window":
            # an idle worker dies; the executor's manager thread is pre-empted (up to 2.5 s) at the point where it is about to flag
            # the executor as broken, and the next call submits its tasks inside that window
            from joblib.externals.loky import process_executor as pe
            orig_flag = pe._ExecutorFlags.flag_as_broken

            def slow_flag(self, broken, _o=orig_flag):
                time.sleep(2.5)
                return _o(self, broken)
            pe._ExecutorFlags.flag_as_broken = slow_flag
            for who in (a.get("pids") or [])[:victims]:
                kill_ident(who)
            time.sleep(0.5)
            items = [(i, d, "ok", how, "B") for i in range(n)]
        elif stage == "big_args":
            # every task carries a 2 MiB argument and all of them are dispatched at once: when the worker dies the executor's
            # feeder thread is blocked writing the next task into the (full) call pipe
            big = bytes(2 << 20)
            items = [(i, d, "self" if i < victims else "ok", how, "B", big) for i in range(12)]
        elif stage == "startup":
            # the worker dies while the next call is starting up (executor being fetched, first tasks being submitted)
            items = [(i, d, "ok", how, "B") for i in range(n)]
            pids = (a.get("pids") or [])[:victims]

            def late_kill():
                time.sleep(sc.get("delay", 0.0))
                for who in pids:
                    kill_ident(who)
            threading.Thread(target=late_kill, daemon=True).start()
        elif stage == "idle":
            pids = (a.get("pids") or [])[:victims]
            for who in pids:
                kill_ident(who)
            time.sleep(0.3)
            items = [(i, d, "ok", how, "B") for i in range(n)]
        elif stage in ("has_child", "has_nested"):
            items = [(0, d, "child_block" if stage == "has_child" else "nested_block", how, "B"), (1, d, "self_when_children", how, "B")] + [(i, d, "ok", how, "B") for i in range(2, n)]
        elif stage == "cold_single":
            items = [(0, d, "block", how, "B")]
            threading.Thread(target=killer, args=("blocked", 1), daemon=True).start()
        b = run_call(p, items, out, "B")
        if b["outcome"] != "HANG":
            run_call(p, [(i, d, "ok", how, "C") for i in range(n)], out, "C")
    finally:
        if ctx is not None:
            try: p.__exit__(None, None, None)
            except BaseException as e: out.append({"name": "exit", "outcome": "other:" + type(e).__name__})
    if not any(r["outcome"] == "HANG" for r in out):
        run_call(Parallel(n_jobs=nj, backend="loky"), [(i, d, "ok", how, "D") for i in range(6)], out, "D")
    json.dump({"calls": out, "killed": killed}, open(sys.argv[1] + ".out", "w"))
    os._exit(0)


if __name__ == "__main__":
    main()
