"""L3: the real built-in backends (threading, loky, multiprocessing), gate-steered.

Tasks block on gate files that the driver opens in a scripted order, so the completion order is the one the
schedule dictates; the OS only decides the interleaving of the caller with the backend's callback thread.
Every event is one O_APPEND write (<= 512 bytes) to ONE log file shared by the caller process and the worker
processes, so the order of the lines is a total order that extends happens-before (no timestamps are compared).
Recording backends are subclasses of the built-in ones registered through register_parallel_backend; they only log
`Submit` and wrap the completion callback to log `CbEnd`.

Run as a script: argv[1] = JSON {"dir":, "runs": [cfg...]}; cfg: backend, mode, nj, pre, bs, n, fail, order (gate order: list of task
indices or "inorder"/"reverse"), closeat, calls.  Output: list of {"events": [...], "notes": [...]}."""
import sys, os, json, time, threading, warnings, multiprocessing as _mp

FAILS = {}       # call tag -> indices of the failing tasks (known to the driver)
MODES = {"list": "list", "generator": "gen", "generator_unordered": "unord"}


def log(path, **e):
    fd = os.open(path, os.O_WRONLY | os.O_APPEND | os.O_CREAT, 0o644)
    try:
        os.write(fd, (json.dumps(e) + "\n").encode())
    finally:
        os.close(fd)


class TaskError(Exception):
    pass


class Unpicklable:
    """a value that cannot be sent back to the caller"""
    def __reduce__(self): raise TypeError("this result cannot be pickled")


class UnpicklableError(Exception):
    def __reduce__(self): raise TypeError("this exception cannot be pickled")


def task(i, c, d, fail, transport=None, seq=False):
    lp = os.path.join(d, "events.log")
    # n_jobs == 1: joblib's in-caller path, no backend: the caller dispatches the one-task batch when it starts it (as in pl1)
    if seq: log(lp, ev="Submit", c=c, lo=i, hi=i + 1)
    log(lp, ev="TStart", c=c, i=i)
    gate = os.path.join(d, "go_%d_%d" % (c, i)); allg = os.path.join(d, "go_all_%d" % c)
    t0 = time.time()
    while not (os.path.exists(gate) or os.path.exists(allg)):
        time.sleep(0.002)
        if time.time() - t0 > 30: break
    if i in fail:
        log(lp, ev="TEnd", c=c, i=i, ok=False)
        if seq: log(lp, ev="CbEnd", c=c, lo=i, hi=i + 1, ok=False)
        if transport == "result": return Unpicklable()          # the task ends, its outcome cannot reach the caller
        if transport == "exception": raise UnpicklableError(c, i)
        raise TaskError(c, i)
    log(lp, ev="TEnd", c=c, i=i, ok=True)
    if seq: log(lp, ev="CbEnd", c=c, lo=i, hi=i + 1, ok=True)
    return (c, i)


def make_backends(d):
    from joblib import register_parallel_backend
    from joblib._parallel_backends import ThreadingBackend, LokyBackend, MultiprocessingBackend
    lp = os.path.join(d, "events.log")

    def rec(base):
        class Rec(base):
            def submit(self, func, callback=None):
                idx = [it[1][0] for it in func.items]; tag = func.items[0][1][1]
                lo, hi = min(idx), max(idx) + 1
                log(lp, ev="Submit", c=tag, lo=lo, hi=hi)

                def cb(out, callback=callback):
                    try:
                        return callback(out)
                    finally:
                        log(lp, ev="CbEnd", c=tag, lo=lo, hi=hi, ok=not (set(range(lo, hi)) & FAILS.get(tag, set())))
                return super().submit(func, callback=cb)
        Rec.__name__ = "Rec" + base.__name__
        return Rec
    register_parallel_backend("rec_threading", rec(ThreadingBackend))
    register_parallel_backend("rec_loky", rec(LokyBackend))
    register_parallel_backend("rec_multiprocessing", rec(MultiprocessingBackend))
    # the built-in pools driven through the legacy protocol (the caller fetches the results), as joblib's own
    # test_retrieval_context does with a ThreadingBackend subclass
    for nm, base in (("threading", ThreadingBackend), ("multiprocessing", MultiprocessingBackend)):
        cls = rec(base); cls.supports_retrieve_callback = False
        register_parallel_backend("rec_legacy_" + nm, cls)


def one_run(cfg, d, runid):
    from joblib import Parallel, delayed
    from joblib._utils import eval_expr
    lp = os.path.join(d, "events.log")
    if os.path.exists(lp): os.unlink(lp)
    for f in os.listdir(d):
        if f.startswith("go_"): os.unlink(os.path.join(d, f))
    nj = cfg["nj"]; n = cfg["n"]; notes = []
    pre = 0 if cfg["pre"] == "all" else int(eval_expr(cfg["pre"].replace("n_jobs", str(nj)))) if isinstance(cfg["pre"], str) else cfg["pre"]
    p = Parallel(n_jobs=nj, backend="rec_" + cfg["backend"], pre_dispatch=cfg["pre"], batch_size=cfg["bs"], return_as=cfg["mode"])
    tids = {}

    def th():
        t = threading.get_ident()
        if t not in tids: tids[t] = len(tids) + 1
        return tids[t]
    calls = cfg.get("calls", 1)
    for callno in range(calls):
        tag = runid * 10 + callno
        fail = set(cfg.get("fail", ())) if callno == 0 else set()
        FAILS[tag] = fail

        class It:
            def __init__(q): q.i = 0
            def __iter__(q): return q
            def __next__(q):
                me = th(); log(lp, ev="PullIn", c=tag, th=me)
                if q.i >= n:
                    log(lp, ev="PullStop", c=tag, th=me); raise StopIteration
                i = q.i; q.i += 1
                log(lp, ev="Pull", c=tag, i=i, th=me)
                return delayed(task)(i, tag, d, fail, cfg.get("transport") if callno == 0 else None, nj == 1)
        log(lp, ev="CallStart", legacy="legacy" in cfg["backend"], c=tag, n=n, mode=MODES[cfg["mode"]], nj=nj, maxb=cfg["bs"], pre=pre, bound=pre + 2 * nj * cfg["bs"], slack=3, ticks=-1, serial=True)
        stop = threading.Event()

        def opener():
            order = cfg.get("order", "inorder")
            seq = list(range(n)) if order == "inorder" else list(reversed(range(n))) if order == "reverse" else list(order) + [i for i in range(n) if i not in order]
            for i in seq:
                # open the gate of task i once it has started (or give up waiting: it may never start after a failure)
                t0 = time.time()
                while time.time() - t0 < 3 and not stop.is_set():
                    try:
                        started = any('"TStart"' in l and '"c": %d, "i": %d}' % (tag, i) in l for l in open(lp))
                    except OSError:
                        started = False
                    if started: break
                    time.sleep(0.003)
                open(os.path.join(d, "go_%d_%d" % (tag, i)), "w").close()
                time.sleep(cfg.get("pace", 0.01))
            open(os.path.join(d, "go_all_%d" % tag), "w").close()
        ot = threading.Thread(target=opener, daemon=True); ot.start()
        res = {"kind": None, "ei": -1}

        def body():
            kind = None; ei = -1
            try:
                r = p(It())
                if cfg["mode"] == "list":
                    for x in r: log(lp, ev="Yield", c=x[0], i=x[1])
                    kind = "returned"
                else:
                    k = 0
                    while True:
                        if cfg.get("closeat") is not None and k == cfg["closeat"] and callno == 0:
                            if not cfg.get("close_in_other_thread"): log(lp, ev="Close")
                            if cfg.get("close_in_other_thread"):
                                # the generator is handed over to another thread which closes it (producer / consumer pattern):
                                # joblib then aborts in a detached thread of its own; wait for it before using the object again
                                ct = threading.Thread(target=r.close); ct.start(); ct.join(30)
                                for th2 in list(threading.enumerate()):
                                    if th2.name == "GeneratorExitThread": th2.join(30)
                                # the abort runs asynchronously here: "closed" is the moment it has completed
                                log(lp, ev="Close")
                            else:
                                r.close()
                            kind = "closed"; break
                        log(lp, ev="Next")
                        try:
                            x = next(r); log(lp, ev="Yield", c=x[0], i=x[1]); k += 1
                        except StopIteration:
                            kind = "returned"; break
            except TaskError as e:
                kind = "raised_task"; ei = e.args[1] if e.args[0] == tag else -1
            except BaseException as e:
                if cfg.get("transport") and callno == 0 and fail:
                    # the outcome of the failing task could not be transported: whatever error reports that is "its" error
                    kind = "raised_task"; ei = min(fail); notes.append("transport failure reported as " + type(e).__name__)
                else:
                    kind = "other:" + type(e).__name__; notes.append(repr(e)[:200])
            res["kind"] = kind; res["ei"] = ei
        bt = threading.Thread(target=body, daemon=True); bt.start(); bt.join(cfg.get("watchdog", 40))
        if bt.is_alive():
            log(lp, ev="End", kind="hang", i=-1); notes.append("call did not terminate within the watchdog")
            stop.set()
            events = []
            for l in open(lp):
                try: events.append(json.loads(l))
                except ValueError: pass
            for e in events:
                if "c" in e: e["c"] = e["c"] - runid * 10
            return {"events": events, "notes": notes, "hung": True}
        kind = res["kind"]; ei = res["ei"]
        log(lp, ev="End", kind=kind, i=ei)
        stop.set()
        open(os.path.join(d, "go_all_%d" % tag), "w").close()
        ot.join(5)
        time.sleep(0.05)
    events = []
    for l in open(lp):
        try: events.append(json.loads(l))
        except ValueError: notes.append("torn log line")
    # call tags are runid*10+callno: renumber to 0,1,.. for the abstract spec (stale events keep smaller numbers)
    base = runid * 10
    for e in events:
        if "c" in e: e["c"] = e["c"] - base
    return {"events": events, "notes": notes}


def main():
    job = json.load(open(sys.argv[1]))
    warnings.simplefilter("ignore")
    d = job["dir"]; os.makedirs(d, exist_ok=True)
    make_backends(d)
    out = []
    for k, cfg in enumerate(job["runs"]):
        try:
            out.append(one_run(cfg, d, k + 1))
        except BaseException as e:
            out.append({"events": [], "notes": ["driver error " + repr(e)[:300]]})
        if out[-1].get("hung"):
            # a call that hangs leaves this process unusable: the remaining runs are reported as not run
            for _ in job["runs"][k + 1:]: out.append({"events": [{"ev": "NotRun"}], "notes": ["not run: an earlier call of this driver hung"], "skipped": True})
            break
    json.dump(out, open(sys.argv[1] + ".out", "w"))
    os._exit(0)


if __name__ == "__main__":
    main()
