"""C19 worker (runs under python3-vt: numpy is not installed in /venv).  argv[1] = JSON {"dir":, "cases": [...]}"""
import sys, os, json, io, warnings, pickle, threading
import numpy as np

DT = {"float64": "<f8", "int32": "<i4", "big_int32": ">i4", "big_float64": ">f8", "bool": "?", "complex128": "<c16", "S3": "S3", "U3": "<U3", "V7": "V7",
      "datetime": "<M8[ns]", "timedelta": "<m8[s]", "record": [("a", "<i2"), ("b", "<f4")], "mixed_endian_record": [("a", "<i2"), ("b", ">f4"), ("c", ">i8")],
      "packed5": [("x", "u1"), ("y", "<f4")], "object": "O", "uint8": "u1"}
SH = {"0d": (), "empty": (0,), "empty2d": (3, 0), "vec": (7,), "mat": (3, 5), "cube": (2, 3, 4), "big": (70001,), "bigmat": (301, 233)}


class Tagged(np.ndarray):
    """a user-defined subclass carrying an attribute"""
    def __array_finalize__(self, obj): self.tag = getattr(obj, "tag", "untagged")
    def __reduce__(self):
        f, args, state = super().__reduce__(); return (f, args, (state, self.tag))
    def __setstate__(self, st):
        super().__setstate__(st[0]); self.tag = st[1]


def as_class(a, cls):
    if cls == "matrix": return np.matrix(a, copy=False) if a.ndim == 2 else a
    if cls == "recarray": return a.view(np.recarray)
    if cls == "masked": return np.ma.MaskedArray(a, mask=(np.arange(a.size).reshape(a.shape) % 3 == 0) if a.shape else False)
    if cls == "user":
        t = a.view(Tagged); t.tag = "mine"; return t
    return a


def make(dtype, shape, layout, seed, d):
    rng = np.random.default_rng(seed)
    dt = np.dtype(DT[dtype]); shp = SH[shape]
    n = int(np.prod(shp)) if shp else 1
    if dtype == "object":
        flat = np.empty(n, dtype=object)
        for i in range(n): flat[i] = [i, "s%d" % i, None][i % 3]
        a = flat.reshape(shp)
    else:
        raw = rng.integers(0, 256, size=n * dt.itemsize, dtype=np.uint8)
        if dt.kind in "fc" or (dt.names and True):
            raw = rng.integers(0, 120, size=n * dt.itemsize, dtype=np.uint8)     # avoid NaN payload surprises in comparisons: compare bytes anyway
        a = np.frombuffer(raw.tobytes(), dtype=dt, count=n).reshape(shp).copy()
    if layout == "F" and a.ndim >= 2: a = np.asfortranarray(a)
    elif layout == "noncontig" and a.ndim >= 1 and a.shape[0] >= 2: a = a[::2]
    elif layout == "transposed" and a.ndim >= 2: a = a.T
    elif layout == "reversed" and a.ndim >= 1: a = a[::-1]
    elif layout.startswith("memmap"):
        p = os.path.join(d, "mm_%d.bin" % seed)
        m = np.memmap(p, dtype=dt, mode="w+", shape=shp if shp else (1,)); m[...] = a if shp else a.reshape(1); m.flush(); a = m
        if layout == "memmap_T": a = m.T
        elif layout == "memmap_rev": a = m[::-1]
        elif layout == "memmap_strided": a = m[1::2, ::-3] if m.ndim == 2 else m[1::3]
        elif layout == "memmap_view":
            # the array handed to the worker does not have the dtype the backing memmap was opened with
            if dt.names: a = m[dt.names[-1]]                                        # one field of a record memmap
            elif dt.kind == "c": a = m.imag                                          # component of a complex memmap
            elif dt.kind in "SUV" or dt.itemsize == 1: a = m.view("u1")              # raw bytes
            else: a = m.view(("<i%d" if dt.kind == "f" else "<u%d" if dt.kind in "iu" and dt.itemsize == 8 else "<f%d" if dt.itemsize in (4, 8) else "<u%d") % dt.itemsize)
    return a


def same(a, b):
    if not isinstance(a, np.ndarray) or not isinstance(b, np.ndarray): return "type"
    if isinstance(a, np.ma.MaskedArray):
        # (a masked array is its data and its mask)
        if not isinstance(b, np.ma.MaskedArray): return "masked array came back as %s" % type(b).__name__
        if not np.array_equal(np.ma.getmaskarray(a), np.ma.getmaskarray(b)): return "mask differs"
        return same(np.asarray(a.data), np.asarray(b.data))
    if isinstance(a, Tagged) and getattr(b, "tag", None) != a.tag: return "attribute of the subclass lost (%r)" % (getattr(b, "tag", None),)
    if a.dtype != b.dtype:
        # joblib loads arrays in the native byte order on purpose (finding D18): same values, byte order normalised
        if a.dtype.newbyteorder("=") == b.dtype and a.shape == b.shape and not a.dtype.hasobject and a.astype(a.dtype.newbyteorder("=")).tobytes() == b.tobytes():
            return "NORMALISED dtype %s -> %s (values equal)" % (a.dtype.str, b.dtype.str)
        return "dtype %s -> %s" % (a.dtype, b.dtype)
    if a.shape != b.shape: return "shape %s -> %s" % (a.shape, b.shape)
    if a.dtype.hasobject:
        return None if a.tolist() == b.tolist() else "object values"
    if a.tobytes() != b.tobytes(): return "element bytes"
    if a.ndim >= 2 and a.size and (a.flags.c_contiguous != b.flags.c_contiguous or a.flags.f_contiguous != b.flags.f_contiguous) and (a.flags.c_contiguous or a.flags.f_contiguous):
        return "memory order C=%s F=%s -> C=%s F=%s" % (a.flags.c_contiguous, a.flags.f_contiguous, b.flags.c_contiguous, b.flags.f_contiguous)
    return None


def main():
    job = json.load(open(sys.argv[1]))
    warnings.simplefilter("ignore")
    import joblib
    d = job["dir"]; os.makedirs(d, exist_ok=True)
    out = []
    for ci, cs in enumerate(job["cases"]):
        rec = {"i": ci, "problems": []}
        try:
            a = as_class(make(cs["dtype"], cs["shape"], cs["layout"], ci, d), cs.get("class", "ndarray"))
            obj = a if cs["container"] == "alone" else [1, a, {"k": a, "other": np.arange(3)}] if cs["container"] == "list" else {"x": (a, "s"), "y": a}
            comp = 0 if cs["compress"] == "none" else (cs["compress"], 3)
            path = os.path.join(d, "a%d.pkl" % ci)
            joblib.dump(obj, path, compress=comp, protocol=cs.get("protocol"))
            mode = None if cs["mmap_mode"] == "None" else cs["mmap_mode"]
            r = joblib.load(path, mmap_mode=mode)
            got = r if cs["container"] == "alone" else r[1] if cs["container"] == "list" else r["y"]
            pb = same(a, got)
            if pb: rec["problems"].append("round trip: " + pb)
            if cs["container"] == "list" and ((same(a, r[2]["k"]) or "").startswith(("t", "d", "s", "e", "o", "m")) or not np.array_equal(r[2]["other"], np.arange(3))): rec["problems"].append("nested copy differs")
            if cs["container"] == "dict" and (same(a, r["x"][0]) or "").startswith(("t", "d", "s", "e", "o", "m")): rec["problems"].append("nested copy differs")
            is_mm = isinstance(got, np.memmap)
            if cs["memmap"] and a.size and not is_mm: rec["problems"].append("mmap_mode=%s did not return a memory map" % mode)
            if not cs["memmap"] and is_mm: rec["problems"].append("memory map returned although not admissible")
            if is_mm:
                if got.offset % 16: rec["problems"].append("memory-mapped data start at offset %d (not a multiple of 16)" % got.offset)
                if got.ctypes.data % min(16, max(1, got.dtype.alignment)): rec["problems"].append("misaligned view")
            # copy-on-write maps ('c'): what the caller writes into the loaded array stays private, the file keeps the original
            if mode == "c" and is_mm and got.size and got.flags.writeable and not a.dtype.hasobject:
                try:
                    got.view("u1")[...] = 255
                except (ValueError, TypeError):
                    got[...] = got[...]          # (views that cannot be reinterpreted: rewrite the same values)
                got.flush() if hasattr(got, "flush") else None
                again = joblib.load(path)
                g3 = again if cs["container"] == "alone" else again[1] if cs["container"] == "list" else again["y"]
                pb = same(a, g3)
                if pb and not pb.startswith("NORMALISED"): rec["problems"].append("writing into an array loaded with mmap_mode='c' changed the file: " + pb)
            # through a file object / bytes buffer as well
            if cs["mmap_mode"] == "None":
                class ShortReads(io.RawIOBase):
                    """an unbuffered stream that hands out at most 4099 bytes per read (pipe, socket, slow network file)"""
                    def __init__(s, data): s.b = io.BytesIO(data)
                    def readable(s): return True
                    def readinto(s, buf):
                        chunk = s.b.read(min(len(buf), 4099)); buf[:len(chunk)] = chunk; return len(chunk)
                    def seekable(s): return True
                    def seek(s, *a): return s.b.seek(*a)
                    def tell(s): return s.b.tell()
                if cs.get("class", "ndarray") in ("ndarray", "matrix"):
                    # (only where joblib reads the bytes itself: the payload of the other subclasses sits inside the pickle
                    # stream, and the pickle module takes a short read for the end of the file)
                    r3 = joblib.load(ShortReads(open(path, "rb").read()))
                    g3s = r3 if cs["container"] == "alone" else r3[1] if cs["container"] == "list" else r3["y"]
                    pb = same(a, g3s)
                    if pb: rec["problems"].append("load from a stream with short reads: " + pb)
                buf = io.BytesIO(); joblib.dump(obj, buf, compress=comp); r2 = joblib.load(io.BytesIO(buf.getvalue()))
                g2 = r2 if cs["container"] == "alone" else r2[1] if cs["container"] == "list" else r2["y"]
                pb = same(a, g2)
                if pb: rec["problems"].append("BytesIO round trip: " + pb)
            del r, got
            os.unlink(path)
        except Exception as e:
            rec["problems"].append("raised %s" % repr(e)[:200])
        out.append(rec)
    json.dump(out, open(sys.argv[1] + ".out", "w"))


def summarize(x):
    """what the task sees: C19 promises the same VALUES to the task, so dtype and bytes are taken in the native byte order
    (numpy's own pickling of a non-contiguous array of foreign byte order - the path used below the memmapping threshold -
    delivers native-order data with equal values; a missing or doubled byte swap still changes the digest)"""
    import hashlib
    if x.dtype.hasobject:
        return (type(x).__name__, str(x.dtype), tuple(x.shape), hashlib.md5(repr(x.tolist()).encode()).hexdigest())
    nat = x.dtype.newbyteorder("=")
    return (type(x).__name__, str(nat), tuple(x.shape), hashlib.md5(np.ascontiguousarray(x).astype(nat).tobytes()).hexdigest())


def parallel_leg():
    """arrays around the max_nbytes threshold passed to loky workers (automatic memmapping)"""
    job = json.load(open(sys.argv[2]))
    warnings.simplefilter("ignore")
    from joblib import Parallel, delayed
    d = job["dir"]; os.makedirs(d, exist_ok=True)
    out = []
    for ci, cs in enumerate(job["cases"]):
        rec = {"i": ci, "problems": []}
        try:
            a = make(cs["dtype"], cs["shape"], cs["layout"], 1000 + ci, d)
            thr = None if cs["delta"] is None else max(a.nbytes + cs["delta"], 0)
            want = summarize(a)
            box = {}

            def call():
                try:
                    box["res"] = Parallel(n_jobs=2, backend=cs.get("backend", "loky"), max_nbytes=thr, mmap_mode=None if cs.get("mode") == "None" else cs.get("mode", "r"))(
                        delayed(summarize)(x) for x in [a, a, [a][0]])
                except BaseException as e:
                    box["exc"] = e
            th = threading.Thread(target=call, daemon=True); th.start(); th.join(120)
            if th.is_alive():
                # (a pool worker that dies - e.g. on a truncated memory map - loses its task for good: the call never returns)
                rec["problems"].append("the call does not return (no result after 120 s)")
                out.append(rec)
                out += [{"i": k, "problems": [], "skipped": True} for k in range(ci + 1, len(job["cases"]))]
                json.dump(out, open(sys.argv[2] + ".out", "w")); os._exit(0)
            if "exc" in box: raise box["exc"]
            res = box["res"]
            for r in res:
                if r[1:] != want[1:]: rec["problems"].append("worker saw %s, parent has %s" % (r[1:], want[1:]))
            rec["seen_as"] = sorted({r[0] for r in res})
        except Exception as e:
            rec["problems"].append("raised %s" % repr(e)[:200])
        out.append(rec)
    json.dump(out, open(sys.argv[2] + ".out", "w"))
    os._exit(0)


if __name__ == "__main__":
    if sys.argv[1] == "--parallel": parallel_leg()
    else: main()
