"""Generic Memory workload process (C05 C11 C12 C02 C06).  argv[1] = JSON spec:
  {"root": cache dir, "moddir": dir for the generated module, "ver": 1, "shift": 0, "log": execution log file,
   "opts": {"compress": false, "expires": null | seconds, "mmap": null},
   "ops": [["call", 3], ["shelve", 3], ["check", 3], ["clear"], ["clear_all"], ["reduce", {"items_limit": 0}], ["warn_off"]]}
The cached function is cachedmod.f, defined in a generated module file whose source depends on `ver`
(and is shifted by `shift` blank lines); it returns ["v<ver>", x] and appends a line to `log` each time its body runs.
One JSON line per op on stdout: {"op":..., "value":..} or {"op":..., "exc": type, "msg":..}."""
import sys, os, json, warnings, importlib


def build_module(moddir, ver, shift=0, name="cachedmod", body=None):
    os.makedirs(moddir, exist_ok=True)
    src = "\n" * shift + "import os\n\n\ndef f(x, y=0):\n    # cach\u00e9 \u2713 (non-ASCII on purpose: torn writes may split a character)\n    with open(os.environ['VERIF_EXEC_LOG'], 'a') as h:\n        h.write('%d %%r %%r\\n' %% (x, y))\n    return ['v%d', x, y]\n\n\nasync def af(x, y=0):\n    with open(os.environ['VERIF_EXEC_LOG'], 'a') as h:\n        h.write('%d %%r %%r async\\n' %% (x, y))\n    return ['v%d', x, y]\n" % (ver, ver, ver, ver)
    if body:
        src = body
    p = os.path.join(moddir, name + ".py")
    try:
        if open(p, encoding="utf-8").read() == src:
            return p
    except OSError:
        pass
    tmp = p + ".%d" % os.getpid()
    with open(tmp, "w", encoding="utf-8") as h:
        h.write(src)
    os.replace(tmp, p)          # participants share the module directory: never expose a half-written module
    return p


def main(spec=None, out=None):
    if spec is None:
        spec = json.loads(sys.argv[1])
    warnings.simplefilter("error" if spec.get("opts", {}).get("warn_error") else "ignore")      # (warnings as errors: like python -W error)
    os.environ["VERIF_EXEC_LOG"] = spec["log"]
    build_module(spec["moddir"], spec.get("ver", 1), spec.get("shift", 0))
    sys.path.insert(0, spec["moddir"])
    import joblib
    cachedmod = importlib.import_module("cachedmod")
    opts = spec.get("opts", {})
    kw = {}
    if opts.get("compress"): kw["compress"] = tuple(opts["compress"]) if isinstance(opts["compress"], list) else opts["compress"]
    if opts.get("mmap"): kw["mmap_mode"] = opts["mmap"]
    mem = joblib.Memory(spec["root"], verbose=int(opts.get("verbose", 0)), **kw)     # (progress messages go to stdout: non-JSON lines are skipped by the reader of the output)
    ckw = {}
    if opts.get("expires") is not None:
        ckw["cache_validation_callback"] = joblib.expires_after(seconds=opts["expires"])
    if opts.get("callback") == "duration":
        # a user-written callback in the style of the documentation: it reads a key of the metadata
        ckw["cache_validation_callback"] = lambda metadata: metadata["duration"] >= 0
    g = mem.cache(cachedmod.f, **ckw)
    ga = mem.cache(cachedmod.af, **ckw) if hasattr(cachedmod, "af") else None     # coroutine function: AsyncMemorizedFunc
    if out is None:
        out = sys.stdout
    import threading
    outlock = threading.Lock()

    def run_ops(ops, tag=None):
      for op in ops:
          rec = {"op": op}
          try:
              if op[0] == "call": rec["value"] = g(*op[1:])
              elif op[0] == "acall":
                  import asyncio
                  rec["value"] = asyncio.run(ga(*op[1:]))
              elif op[0] == "shelve": rec["value"] = g.call_and_shelve(*op[1:]).get()
              elif op[0] == "shelveref":
                  ref = g.call_and_shelve(*op[1:])
                  try: rec["value"] = ref.get()
                  except (KeyError, OSError) as e: rec["value"] = "evicted"     # documented: the reference outlived its entry
              elif op[0] == "check": rec["value"] = bool(g.check_call_in_cache(*op[1:]))
              elif op[0] == "clear": g.clear(warn=False); rec["value"] = "cleared"
              elif op[0] == "clear_all": mem.clear(warn=False); rec["value"] = "cleared"
              elif op[0] == "reduce": mem.reduce_size(**op[1]); rec["value"] = "reduced"
              elif op[0] == "orphan":
                  # an entry directory without any file: what a writer killed between mkdir and its first open leaves behind
                  for nm in op[1:]:
                      os.makedirs(os.path.join(g.store_backend.location, g.func_id, nm), exist_ok=True)
                  rec["value"] = "made"
              elif op[0] == "loadall":
                  bad = []
                  for dp, dn, fn in os.walk(spec["root"]):
                      if "output.pkl" in fn:
                          try: joblib.load(os.path.join(dp, "output.pkl"))
                          except BaseException as e: bad.append([os.path.relpath(dp, spec["root"]), type(e).__name__])
                  rec["value"] = bad
              elif op[0] == "threads":
                  def thread_body(o, k):
                      try:
                          run_ops(o, k)
                      finally:
                          # tell the controller of the interposer that this actor is gone
                          try: os.stat(os.path.join(spec["root"], ".verif_actor_exit"))
                          except OSError: pass
                  ths = [threading.Thread(target=thread_body, args=(o, k)) for k, o in enumerate(op[1])]
                  [t.start() for t in ths]; [t.join() for t in ths]; rec["value"] = "joined"
              else: raise ValueError(op)
          except BaseException as e:
              rec["exc"] = type(e).__name__; rec["msg"] = str(e)[:200]
          if tag is not None: rec["thread"] = tag
          with outlock:
              out.write(json.dumps(rec) + "\n"); out.flush()

    run_ops(spec["ops"])


def zygote():
    """Fork server: imports joblib once (never touches Memory), then for every JSON line on stdin
    {"spec": .., "out": file, "env": {..}} forks a child that runs the workload with stdout -> file.
    Replies "S <id> <pid>" when started and "X <id> <status>" when the child is gone."""
    import joblib, threading, signal  # noqa: F401  (pre-import)
    warnings.filterwarnings("ignore", category=DeprecationWarning)
    lock = threading.Lock()

    def say(s):
        with lock:
            sys.stdout.write(s + "\n"); sys.stdout.flush()

    def reap(jid, pid):
        _, st = os.waitpid(pid, 0)
        code = os.WEXITSTATUS(st) if os.WIFEXITED(st) else -os.WTERMSIG(st)
        say("X %s %d" % (jid, code))
    for line in sys.stdin:
        job = json.loads(line)
        pid = os.fork()
        if pid == 0:
            try:
                for k, v in job.get("env", {}).items():
                    if v is None: os.environ.pop(k, None)
                    else: os.environ[k] = v
                efd = os.open(job["out"] + ".stderr", os.O_WRONLY | os.O_CREAT | os.O_TRUNC, 0o644)
                os.dup2(efd, 2)          # joblib's own warnings / tracebacks of tolerated load errors
                ofd = os.open(job["out"] + ".stdout", os.O_WRONLY | os.O_CREAT | os.O_TRUNC, 0o644)
                os.dup2(ofd, 1)          # messages of a verbose Memory: never into the pipe of the fork server's protocol
                sys.stdout = os.fdopen(ofd, "w")
                with open(job["out"], "w") as fh:
                    try:
                        main(job["spec"], fh)
                    except BaseException:
                        import traceback
                        with open(job["out"] + ".err", "w") as eh: traceback.print_exc(file=eh)
                        os._exit(3)
                os._exit(0)
            finally:
                os._exit(4)
        say("S %s %d" % (job["id"], pid))
        threading.Thread(target=reap, args=(job["id"], pid), daemon=True).start()


if __name__ == "__main__":
    if len(sys.argv) > 1 and sys.argv[1] == "--zygote":
        zygote()
    else:
        main()
