"""C15 workers.  mode 'table': under a given affinity mask and LOKY_MAX_CPU_COUNT evaluate cpu_count() and effective_n_jobs for (backend, n_jobs) rows.
mode 'gate': run Parallel(n_jobs, backend) with gated tasks and report the high-water mark of simultaneously running tasks.
mode 'gate_seq': a history of gated calls with different n_jobs in one process (executor reuse and resize).
mode 'nest': run nested Parallel calls and report pids / thread ids / inner backends."""
import sys, os, json, time, threading, warnings


def fake_quota(halves):
    """the CPU bandwidth quota of the control group as loky reads it (/sys/fs/cgroup/cpu.max, cgroup v2): this sandbox has no such
    file, the two calls that look at it are answered here"""
    import builtins
    name = "/sys/fs/cgroup/cpu.max"
    real_exists, real_open = os.path.exists, builtins.open
    if not halves:
        os.path.exists = real_exists if not hasattr(real_exists, "_verif") else real_exists._verif[0]
        return
    text = "%d 100000\n" % (halves * 50000)

    def exists(p):
        return True if p == name else real_exists(p)

    def open_(p, *a, **k):
        if p == name:
            import io
            return io.StringIO(text)
        return real_open(p, *a, **k)
    os.path.exists = exists; builtins.open = open_


def table(job):
    fake_quota(job.get("quota", 0))
    os.sched_setaffinity(0, set(range(job["aff"])))
    if job["env"]: os.environ["LOKY_MAX_CPU_COUNT"] = str(job["env"])
    else: os.environ.pop("LOKY_MAX_CPU_COUNT", None)
    import joblib
    from joblib import parallel_config, effective_n_jobs, Parallel
    out = {"cpu_count": joblib.cpu_count(), "cpu_count_physical": joblib.cpu_count(only_physical_cores=True), "rows": []}
    for backend, n in job["rows"]:
        try:
            with parallel_config(backend=backend):
                e1 = effective_n_jobs(n)
            e2 = Parallel(n_jobs=n, backend=backend)._effective_n_jobs()
            out["rows"].append(["ok", e1, e2])
        except ValueError:
            out["rows"].append(["ValueError", 0, 0])
    return out


def table_seq(job):
    """one process, the affinity mask and LOKY_MAX_CPU_COUNT change while it runs: every step is evaluated like a table() call"""
    import joblib
    from joblib import parallel_config, effective_n_jobs, Parallel
    outs = []
    for st in job["steps"]:
        os.sched_setaffinity(0, set(range(st["aff"])))
        if st["env"]: os.environ["LOKY_MAX_CPU_COUNT"] = str(st["env"])
        else: os.environ.pop("LOKY_MAX_CPU_COUNT", None)
        out = {"cpu_count": joblib.cpu_count(), "cpu_count_physical": joblib.cpu_count(only_physical_cores=True), "rows": []}
        for backend, n in st["rows"]:
            try:
                with parallel_config(backend=backend):
                    e1 = effective_n_jobs(n)
                e2 = Parallel(n_jobs=n, backend=backend)._effective_n_jobs()
                out["rows"].append(["ok", e1, e2])
            except ValueError:
                out["rows"].append(["ValueError", 0, 0])
        outs.append(out)
    return {"steps": outs}


def gated_task(d, i):
    open(os.path.join(d, "start_%d_%d_%d" % (i, os.getpid(), threading.get_ident())), "w").close()
    t0 = time.time()
    while not os.path.exists(os.path.join(d, "gate")):
        time.sleep(0.005)
        if time.time() - t0 > 60: break
    open(os.path.join(d, "end_%d" % i), "w").close()
    return i


def gate(job):
    if job.get("aff"): os.sched_setaffinity(0, set(range(job["aff"])))
    warnings.simplefilter("ignore")
    from joblib import Parallel, delayed
    d = job["dir"]; os.makedirs(d, exist_ok=True)
    res = {}

    def driver():
        # quiescence: at least one task started and the number of started tasks stable for `settle` seconds
        last = -1; since = time.time(); t0 = time.time()
        while time.time() - t0 < 60:
            n = len([f for f in os.listdir(d) if f.startswith("start_")])
            if n != last: last = n; since = time.time()
            elif n >= 1 and time.time() - since > job.get("settle", 1.0): break
            time.sleep(0.01)
        res["high_water"] = last
        open(os.path.join(d, "gate"), "w").close()
    th = threading.Thread(target=driver); th.start()
    out = Parallel(n_jobs=job["n_jobs"], backend=job["backend"], pre_dispatch=job.get("pre", "2*n_jobs"), batch_size=job.get("bs", 1))(
        delayed(gated_task)(d, i) for i in range(job["ntasks"]))
    th.join()
    res["ok"] = out == list(range(job["ntasks"]))
    return res


def gate_seq(job):
    """a HISTORY of calls with different n_jobs in one process (the loky executor is reused and resized; pools are rebuilt):
    per call the high-water mark of simultaneously started tasks and the worker processes seen"""
    warnings.simplefilter("ignore")
    from joblib import Parallel, delayed
    out = []
    p_shared = None
    import contextlib
    ctx = contextlib.nullcontext()
    if job.get("inner_threads"):
        # with inner_max_num_threads fixed the arguments of the loky executor do not depend on n_jobs: the executor of the
        # previous call is RESIZED (otherwise a change of cpus // n_jobs replaces it)
        from joblib import parallel_config
        ctx = parallel_config(backend="loky", inner_max_num_threads=job["inner_threads"])
    with ctx:
        return {"calls": _gate_seq_calls(job, out, p_shared)}


def _gate_seq_calls(job, out, p_shared):
    from joblib import Parallel, delayed
    for k, (nj, has_tasks) in enumerate(job["history"]):
        d = os.path.join(job["dir"], "c%d" % k); os.makedirs(d, exist_ok=True)
        res = {"n_jobs": nj}
        if not has_tasks:
            # a call that submits nothing: the backend is set up (the executor fetched and sized), no task ever reaches it
            bk0 = {} if job.get("inner_threads") else {"backend": job["backend"]}
            r0 = Parallel(n_jobs=nj, **bk0)(delayed(gated_task)(d, i) for i in range(0))
            res.update(high_water=0, pids_at_high_water=0, ok=r0 == [], empty=True)
            out.append(res); continue

        def driver(d=d, res=res):
            last = -1; since = time.time(); t0 = time.time()
            while time.time() - t0 < 60:
                n = len([f for f in os.listdir(d) if f.startswith("start_")])
                if n != last: last = n; since = time.time()
                elif n >= 1 and time.time() - since > job.get("settle", 1.0): break
                time.sleep(0.01)
            res["high_water"] = last
            res["pids_at_high_water"] = len({f.split("_")[2] for f in os.listdir(d) if f.startswith("start_")})
            open(os.path.join(d, "gate"), "w").close()
        th = threading.Thread(target=driver); th.start()
        bk = {} if job.get("inner_threads") else {"backend": job["backend"]}
        if job.get("same_object"):
            # one Parallel object whose n_jobs attribute is changed between the calls (what estimators holding a Parallel do)
            if p_shared is None: p_shared = Parallel(n_jobs=nj, pre_dispatch="all", **bk)
            p_shared.n_jobs = nj; p = p_shared
        else:
            p = Parallel(n_jobs=nj, pre_dispatch=job.get("pre", "all"), **bk)
        r = p(delayed(gated_task)(d, i) for i in range(job["ntasks"]))
        th.join()
        res["ok"] = r == list(range(job["ntasks"]))
        if job["backend"] == "loky":
            from joblib.externals.loky import reusable_executor as rex
            res["executor"] = id(rex._executor); res["processes"] = len(rex._executor._processes) if rex._executor is not None else None
        out.append(res)
    return out


def inner_task(x):
    return (os.getpid(), threading.get_ident())


def mid_task(spec, level):
    """runs inside a worker: performs the nested call described by spec[level] and reports what it used"""
    from joblib import Parallel, delayed
    from joblib.parallel import get_active_backend
    kw = dict(spec[level])
    be, nj = get_active_backend(prefer=kw.get("prefer"), require=kw.get("require")) if ("prefer" in kw or "require" in kw) else get_active_backend()
    p = Parallel(n_jobs=2, **kw)
    me = (os.getpid(), threading.get_ident())
    if level + 1 < len(spec):
        sub = p(delayed(mid_task)(spec, level + 1) for _ in range(2))
    else:
        sub = p(delayed(inner_task)(i) for i in range(4))
    return {"level": level, "me": me, "backend": type(p._backend).__name__, "eff": p._effective_n_jobs(), "sub": sub}


def nest(job):
    warnings.simplefilter("ignore")
    from joblib import Parallel, delayed
    main = os.getpid()
    out = Parallel(n_jobs=2, backend=job["outer"])(delayed(mid_task)(job["spec"], 0) for _ in range(2))
    return {"main": main, "out": out}


if __name__ == "__main__":
    job = json.load(open(sys.argv[1]))
    r = {"table": table, "table_seq": table_seq, "gate": gate, "gate_seq": gate_seq, "nest": nest}[job["mode"]](job)
    json.dump(r, open(sys.argv[1] + ".out", "w"))
