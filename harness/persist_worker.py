"""C03 worker: dump/load round trips.  argv[1] = JSON {"dir": scratch, "cases": [...]}.
case kinds:
  {"k": "cfg", "cfg": state of Persist.tla, "obj": "graph"|expr, "protocol": p}    configuration lattice
  {"k": "graph", "graph": state of ObjGraph.tla, "kinds": [...], "compress": arg, "protocol": p, "target": ...}
  {"k": "size", "expr": python expr, "compress": arg, "protocol": p}                 payload size classes"""
import sys, os, json, io, shutil, pickle, traceback

MAGIC = {"x": "zlib", "1f8b": "gzip", "BZ": "bz2", "5d00": "lzma", "fd377a585a": "xz", "80": "none"}
EXTS = ["", ".pkl", ".z", ".gz", ".bz2", ".lzma", ".xz"]


class Obj:
    def __eq__(self, o): return type(o) is Obj and self.__dict__.keys() == o.__dict__.keys()


def build(graph, kinds, leaves):
    n = graph["n"]
    nodes = [([] if kinds[i % len(kinds)] == "list" else {} if kinds[i % len(kinds)] == "dict" else Obj()) for i in range(n)]
    for i in range(n):
        for c, ch in enumerate(graph["kids"][i]):
            v = nodes[ch[1] - 1] if ch[0] == "n" else leaves[ch[1] - 1]
            if isinstance(nodes[i], list): nodes[i].append(v)
            elif isinstance(nodes[i], dict): nodes[i]["k%d" % c] = v
            else: setattr(nodes[i], "a%d" % c, v)
    return nodes[0]


def iso(a, b, m=None):
    """structural equality including the identity structure (sharing / cycles) of containers"""
    if m is None: m = {}
    if isinstance(a, (list, dict, Obj)):
        if id(a) in m: return m[id(a)] == id(b)
        if type(a) is not type(b): return False
        if id(b) in m.values(): return False
        m[id(a)] = id(b)
        if isinstance(a, list): return len(a) == len(b) and all(iso(x, y, m) for x, y in zip(a, b))
        if isinstance(a, dict): return list(a.keys()) == list(b.keys()) and all(iso(a[k], b[k], m) for k in a)
        return list(a.__dict__) == list(b.__dict__) and all(iso(a.__dict__[k], b.__dict__[k], m) for k in a.__dict__)
    return type(a) is type(b) and a == b


def compress_arg(arg):
    if arg["t"] == "bool": return arg["b"]
    if arg["t"] == "int": return arg["l"]
    if arg["t"] == "str": return arg["m"]
    return (arg["m"], None if arg["l"] == -1 else arg["l"])


def magic_of(data):
    h = data[:6]
    for mg, name in MAGIC.items():
        b = mg.encode() if mg in ("x", "BZ") else bytes.fromhex(mg)
        if mg != "80" and h.startswith(b): return name
    return "none"


def sniff_history():
    """argv[2] = JSON {"dir":, "hist": [["register", name] | ["load", compressor name | "none"], ...]}: one history of Sniffing.tla in this
    fresh interpreter; every load must give the object back from a path, a buffered file, an unbuffered file and an in-memory buffer"""
    import io, joblib
    from joblib.compressor import CompressorWrapper, BinaryZlibFile, register_compressor
    job = json.load(open(sys.argv[2])); d = job["dir"]; os.makedirs(d, exist_ok=True)
    MAGIC = {"c3": bytes([86, 90, 51]), "c9": bytes([86, 69, 82, 73, 70, 45, 76, 78, 71])}
    problems = []

    def make(name):
        class PrefixedZlib(CompressorWrapper):
            def __init__(self): super().__init__(obj=BinaryZlibFile, prefix=MAGIC[name], extension="." + name)
            def compressor_file(self, fileobj, compresslevel=None):
                fileobj.write(MAGIC[name]); return BinaryZlibFile(fileobj, "wb", compresslevel=compresslevel or 3)
            def decompressor_file(self, fileobj):
                got = fileobj.read(len(MAGIC[name])); assert got == MAGIC[name], got
                return BinaryZlibFile(fileobj, "rb")
        return PrefixedZlib()
    for k, (op, x) in enumerate(job["hist"]):
        if op == "register":
            register_compressor(x, make(x)); continue
        obj = {"step": k, "payload": ["x" * 50, (1.5, None)]}
        path = os.path.join(d, "h%d.bin" % k)
        with open(path, "wb") as fh: joblib.dump(obj, fh, compress=0 if x == "none" else (x, 3))
        data = open(path, "rb").read()
        for name, fn in (("path", lambda: joblib.load(path)), ("buffered file", lambda: joblib.load(open(path, "rb"))), ("unbuffered file", lambda: joblib.load(open(path, "rb", buffering=0))),
                         ("in-memory buffer", lambda: joblib.load(io.BytesIO(data)))):
            try:
                if fn() != obj: problems.append({"step": k, "via": name, "what": "another object"})
            except Exception as ex:
                problems.append({"step": k, "via": name, "what": "raised " + repr(ex)[:100]})
    json.dump(problems, open(sys.argv[2] + ".out", "w"))


def main():
    job = json.load(open(sys.argv[1]))
    import joblib
    d = job["dir"]; os.makedirs(d, exist_ok=True)
    leaves = [b"bytes\x00", ("tuple", 1.5, None)]
    out = []
    sample = {"root": [1, "two", {"three": (4.0, None)}], "shared": None}
    sample["shared"] = sample["root"]; sample["self"] = sample
    for ci, case in enumerate(job["cases"]):
        rec = {"i": ci, "problems": []}
        try:
            if case["k"] == "cfg":
                cfg = case["cfg"]; arg = compress_arg(cfg["arg"]); want = cfg["out"]
                obj = sample
                path = os.path.join(d, "c%d%s" % (ci, cfg["ext"]))
                try:
                    if cfg["target"] == "path":
                        joblib.dump(obj, path, compress=arg, protocol=case.get("protocol"))
                    else:
                        with open(path, "wb") as fh: joblib.dump(obj, fh, compress=arg, protocol=case.get("protocol"))
                    got = "ok"
                except ValueError:
                    got = "ValueError"
                if got != want["kind"]:
                    rec["problems"].append("spec says %s, dump: %s" % (want["kind"], got))
                if got == "ok":
                    data = open(path, "rb").read()
                    if want["kind"] == "ok" and magic_of(data) != want["method"]:
                        rec["problems"].append("spec: written with %s, file content is %s" % (want["method"], magic_of(data)))
                    if want["kind"] == "ok" and want["method"] == "zlib" and want["level"] in (1, 9) and len(data) > 1:
                        flevel = data[1] >> 6
                        if (want["level"] == 1 and flevel != 0) or (want["level"] == 9 and flevel != 3):
                            rec["problems"].append("zlib header level class %d for requested level %d" % (flevel, want["level"]))
                    # load: in place, under every other name, through file objects and an in-memory buffer
                    loads = [("path", lambda: joblib.load(path))]
                    for e in EXTS:
                        p2 = os.path.join(d, "r%d%s" % (ci, e)); shutil.copy(path, p2)
                        loads.append(("renamed" + e, lambda p2=p2: joblib.load(p2)))
                    loads.append(("fileobj", lambda: joblib.load(open(path, "rb"))))
                    loads.append(("rawfile", lambda: joblib.load(open(path, "rb", buffering=0))))
                    loads.append(("bytesio", lambda: joblib.load(io.BytesIO(data))))
                    # less usual targets: a pathlib.Path, file objects that have no path name (anonymous temporary file, a file
                    # opened from a descriptor), a spooled file, a dump into an anonymous file read back from the same object
                    import pathlib, tempfile
                    loads.append(("pathlib", lambda: joblib.load(pathlib.Path(path))))

                    def via_tmpfile():
                        with tempfile.TemporaryFile() as tf:
                            tf.write(data); tf.seek(0); return joblib.load(tf)

                    def via_fd():
                        fd = os.open(path, os.O_RDONLY)
                        with os.fdopen(fd, "rb") as fh: return joblib.load(fh)

                    def via_spooled():
                        with tempfile.SpooledTemporaryFile(max_size=1 << 30) as sf:
                            sf.write(data); sf.seek(0); return joblib.load(sf)

                    def dump_into_tmpfile():
                        with tempfile.TemporaryFile() as tf:
                            joblib.dump(obj, tf, compress=arg, protocol=case.get("protocol")); tf.seek(0); return joblib.load(tf)
                    loads += [("anonymous temporary file", via_tmpfile), ("file opened from a descriptor", via_fd), ("spooled file", via_spooled),
                              ("dump and load through one anonymous file", dump_into_tmpfile)]
                    for name, fn in loads:
                        try:
                            r = fn()
                            if not iso(obj, r): rec["problems"].append("load via %s: not the same object graph" % name)
                        except Exception as ex:
                            rec["problems"].append("load via %s raised %s" % (name, repr(ex)[:100]))
                    for f in os.listdir(d):
                        if f.startswith(("c%d" % ci, "r%d" % ci)): os.unlink(os.path.join(d, f))
            elif case["k"] == "custom":
                # a compressor registered through the public register_compressor AFTER this process has already loaded files;
                # its magic prefix is longer than every built-in one
                from joblib.compressor import CompressorWrapper, BinaryZlibFile, register_compressor
                PREFIX = b"VERIF-COMPRESSOR-" + case["name"].encode()

                class PrefixedZlib(CompressorWrapper):
                    def __init__(self): super().__init__(obj=BinaryZlibFile, prefix=PREFIX, extension="." + case["name"])
                    def compressor_file(self, fileobj, compresslevel=None):
                        fileobj.write(PREFIX); return BinaryZlibFile(fileobj, "wb", compresslevel=compresslevel or 3)
                    def decompressor_file(self, fileobj):
                        got = fileobj.read(len(PREFIX)); assert got == PREFIX, got
                        return BinaryZlibFile(fileobj, "rb")
                register_compressor(case["name"], PrefixedZlib(), force=True)
                obj = eval(case["expr"], {"os": os})
                path = os.path.join(d, "k%d.pkl" % ci)
                with open(path, "wb") as fh: joblib.dump(obj, fh, compress=(case["name"], 3), protocol=case["protocol"])
                data = open(path, "rb").read()
                if not data.startswith(PREFIX): rec["problems"].append("custom compressor not used for the dump")
                for name, fn in (("path", lambda: joblib.load(path)), ("fileobj", lambda: joblib.load(open(path, "rb"))), ("rawfile", lambda: joblib.load(open(path, "rb", buffering=0))),
                                 ("bytesio", lambda: joblib.load(io.BytesIO(data)))):
                    try:
                        r = fn()
                        if not (type(r) is type(obj) and r == obj): rec["problems"].append("custom compressor: load via %s returns another object" % name)
                    except Exception as ex:
                        rec["problems"].append("custom compressor (prefix of %d bytes): load via %s raised %s" % (len(PREFIX), name, repr(ex)[:100]))
                os.unlink(path)
            elif case["k"] == "graph":
                obj = build(case["graph"], case["kinds"], leaves)
                arg = case["compress"]; arg = tuple(arg) if isinstance(arg, list) else arg
                if case["target"] == "bytesio":
                    buf = io.BytesIO(); joblib.dump(obj, buf, compress=arg, protocol=case["protocol"]); r = joblib.load(io.BytesIO(buf.getvalue()))
                else:
                    path = os.path.join(d, "g%d.pkl" % ci); joblib.dump(obj, path, compress=arg, protocol=case["protocol"]); r = joblib.load(path); os.unlink(path)
                if not iso(obj, r): rec["problems"].append("graph not isomorphic after the round trip")
            else:
                obj = eval(case["expr"], {"os": os})
                arg = case["compress"]; arg = tuple(arg) if isinstance(arg, list) else arg
                for target in ("path", "bytesio", "rawfile"):
                    if target == "bytesio":
                        buf = io.BytesIO(); joblib.dump(obj, buf, compress=arg, protocol=case["protocol"]); r = joblib.load(io.BytesIO(buf.getvalue()))
                    else:
                        path = os.path.join(d, "s%d.pkl" % ci); joblib.dump(obj, path, compress=arg, protocol=case["protocol"])
                        r = joblib.load(path) if target == "path" else joblib.load(open(path, "rb", buffering=0)); os.unlink(path)
                    if not (type(r) is type(obj) and r == obj): rec["problems"].append("size-class payload differs after the round trip via %s" % target)
                if case.get("embedded"):
                    # the dump does not start at offset 0 of its file object: it follows bytes written by the caller, and - without
                    # compression, where nothing reads ahead - another dump follows it
                    import tempfile
                    header = b"HEADER-BYTES-OF-THE-CALLER" * case["embedded"]
                    second = {"second": [1, 2.5, None]}
                    plain = arg in (0, False)

                    def fill(fh):
                        fh.write(header); joblib.dump(obj, fh, compress=arg, protocol=case["protocol"])
                        if plain:
                            joblib.dump(second, fh, compress=arg, protocol=case["protocol"])
                            joblib.dump(obj, fh, compress=arg, protocol=case["protocol"])      # (the last pickle of a file may be 4 bytes long)
                    targets = []
                    tf = tempfile.TemporaryFile(); fill(tf); targets.append(("buffered file", tf))
                    bio = io.BytesIO(); fill(bio); targets.append(("in-memory buffer", bio))
                    rp = os.path.join(d, "e%d.bin" % ci)
                    with open(rp, "wb") as fh: fill(fh)
                    targets.append(("unbuffered file", open(rp, "rb", buffering=0)))
                    for tname, fh in targets:
                        try:
                            fh.seek(len(header)); r = joblib.load(fh)
                            if not (type(r) is type(obj) and r == obj): rec["problems"].append("dump placed after %d bytes of a %s: load at that offset returns %r" % (len(header), tname, r if len(repr(r)) < 60 else type(r)))
                            elif plain:
                                r2 = joblib.load(fh)
                                if r2 != second: rec["problems"].append("second of three dumps in one %s: load returns %r" % (tname, r2 if len(repr(r2)) < 60 else type(r2)))
                                r3 = joblib.load(fh)
                                if not (type(r3) is type(obj) and r3 == obj): rec["problems"].append("last of three dumps in one %s: load returns %r" % (tname, r3 if len(repr(r3)) < 60 else type(r3)))
                        except Exception as ex:
                            rec["problems"].append("dump placed after %d bytes of a %s: load raised %s" % (len(header), tname, repr(ex)[:100]))
                        finally:
                            fh.close()
                    os.unlink(rp)
        except Exception as ex:
            rec["problems"].append("raised %s" % repr(ex)[:200])
        out.append(rec)
    json.dump(out, open(sys.argv[1] + ".out", "w"))


if __name__ == "__main__" and len(sys.argv) > 2 and sys.argv[1] == "--sniff":
    sniff_history()
elif __name__ == "__main__":
    main()
