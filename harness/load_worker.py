"""C14 worker: joblib.load on damaged files, in-process with an alarm watchdog and an address-space limit.
argv[1] = JSON {"cases": [{"file": path of the intact dump, "cut": n | null, "extra_hex": "..", "orig": python expr of the original}], "watchdog": s}
A case that hits the watchdog or exhausts memory is reported (and the worker restarts itself lazily: the parent re-runs the rest)."""
import sys, json, io, signal, resource, time


class Alarm(BaseException):
    pass


def main():
    job = json.load(open(sys.argv[1]))
    import joblib
    resource.setrlimit(resource.RLIMIT_AS, (3 << 30, 3 << 30))
    signal.signal(signal.SIGALRM, lambda *a: (_ for _ in ()).throw(Alarm()))
    cache = {}
    out = []
    start = job.get("start", 0)
    for ci in range(start, len(job["cases"])):
        case = job["cases"][ci]
        if case["file"] not in cache: cache[case["file"]] = open(case["file"], "rb").read()
        data = cache[case["file"]]
        if case.get("cut") is not None: data = data[:case["cut"]]
        data = data + bytes.fromhex(case.get("extra_hex", ""))
        orig = eval(case["orig"], {"frozenset": frozenset})
        rec = {"i": ci}
        signal.setitimer(signal.ITIMER_REAL, job.get("watchdog", 10))
        t0 = time.time()
        try:
            r = joblib.load(io.BytesIO(data))
            signal.setitimer(signal.ITIMER_REAL, 0)
            rec["outcome"] = "original" if (r == orig and type(r) is type(orig)) else "DIFFERENT"
            if rec["outcome"] == "DIFFERENT": rec["got"] = repr(r)[:120]
        except Alarm:
            rec["outcome"] = "HANG"
        except MemoryError:
            signal.setitimer(signal.ITIMER_REAL, 0); rec["outcome"] = "RUNAWAY"
        except BaseException as e:
            signal.setitimer(signal.ITIMER_REAL, 0); rec["outcome"] = "raises"; rec["exc"] = type(e).__name__
        rec["t"] = round(time.time() - t0, 3)
        out.append(rec)
        if rec["outcome"] in ("HANG", "RUNAWAY"):
            break          # state may be unsound now: let the parent restart after this case
    json.dump(out, open(sys.argv[1] + ".out", "w"))


if __name__ == "__main__":
    main()
