"""Controller side of the LD_PRELOAD interposer (harness/fsshim/fsshim.c): runs worker processes whose
file-system calls under `root` are parked until the controller grants them (turn-based), and can answer a
request with a crash ("K": _exit(137) before the call) or a torn write ("T<n>": write n bytes, then _exit)."""
import os, sys, socket, selectors, subprocess, time, tempfile, shutil, json
VERIF = os.path.dirname(os.path.dirname(os.path.abspath(__file__)))
SO = os.path.join(VERIF, "build", "fsshim.so")
WORKER = os.path.join(VERIF, "harness", "memworker.py")
PY = "/venv/bin/python"
MUTATING = ("mkdir", "open_trunc", "open_w", "write", "rename", "unlink", "rmdir", "utime")


import threading, queue, itertools, atexit


class _Child:
    def __init__(self, jid, outfile):
        self.jid = jid; self.outfile = outfile; self.pid = None; self.returncode = None
        self.started = threading.Event(); self.done = threading.Event()

    def poll(self):
        return self.returncode if self.done.is_set() else None

    def wait(self, timeout=None):
        self.done.wait(timeout); return self.returncode

    def kill(self):
        if self.pid and not self.done.is_set():
            try: os.kill(self.pid, 9)
            except OSError: pass

    def lines(self):
        out = []
        try:
            for l in open(self.outfile):
                try: out.append(json.loads(l))
                except ValueError: pass
        except OSError:
            pass
        return out

    def err(self):
        try: return open(self.outfile + ".err").read()[-400:]
        except OSError: return ""


class Zygote:
    """fork server (harness/memworker.py --zygote): workers start in ~10 ms instead of ~300 ms"""
    _inst = None; _lock = threading.Lock()

    @classmethod
    def get(cls):
        with cls._lock:
            if cls._inst is None or cls._inst.p.poll() is not None:
                cls._inst = Zygote()
            return cls._inst

    def __init__(self):
        env = dict(os.environ, PYTHONPATH=os.environ.get("VERIF_REPO", "/repo"), PYTHONHASHSEED="0", PYTHONDONTWRITEBYTECODE="1", LD_PRELOAD=SO)
        env.pop("VERIF_FS_ROOT", None); env.pop("VERIF_FS_SOCK", None)
        self.p = subprocess.Popen([PY, "-u", WORKER, "--zygote"], env=env, stdin=subprocess.PIPE, stdout=subprocess.PIPE, text=True, bufsize=1)
        self.jobs = {}; self.wl = threading.Lock(); self.ids = itertools.count(1)
        threading.Thread(target=self._reader, daemon=True).start()
        atexit.register(self.close)

    def _reader(self):
        for line in self.p.stdout:
            parts = line.split()
            if len(parts) != 3: continue
            ch = self.jobs.get(parts[1])
            if ch is None: continue
            if parts[0] == "S":
                ch.pid = int(parts[2]); ch.started.set()
            elif parts[0] == "X":
                ch.returncode = int(parts[2]); ch.done.set(); self.jobs.pop(parts[1], None)

    def spawn(self, spec, outfile, env):
        jid = "j%d" % next(self.ids)
        ch = _Child(jid, outfile); self.jobs[jid] = ch
        with self.wl:
            self.p.stdin.write(json.dumps({"id": jid, "spec": spec, "out": outfile, "env": env}) + "\n"); self.p.stdin.flush()
        if not ch.started.wait(20):
            raise RuntimeError("zygote did not start the worker")
        return ch

    def close(self):
        try: self.p.stdin.close(); self.p.terminate()
        except Exception: pass


class Req:
    __slots__ = ("proc", "pid", "tid", "op", "path", "arg", "raw")

    def __init__(self, proc, raw, root):
        parts = raw.split(" ")
        self.proc = proc; self.pid = int(parts[0]); self.tid = int(parts[1]); self.op = parts[2]
        self.path = os.path.relpath(parts[3], root) if parts[3].startswith(root) else parts[3]
        self.arg = parts[4] if len(parts) > 4 else ""
        if self.op == "rename" and self.arg.startswith(root): self.arg = os.path.relpath(self.arg, root)
        self.raw = raw

    def short(self):
        return [self.proc, self.op, self.path] + ([self.arg] if self.arg not in ("", "0") else [])


def run(root, specs, policy, quiet_s=0.5, deadline=60, shim=True, extra_threads=0):
    """specs: list of memworker spec dicts (root filled in here).  policy(waiting: {proc: Req}, step) -> (proc, verdict).
    Returns (outs, trace): outs[i] = (returncode, [json lines]); trace = list of (Req.short(), verdict) in grant order."""
    sockdir = tempfile.mkdtemp(prefix="sock_", dir=os.path.dirname(root))
    sockpath = os.path.join(sockdir, "s")
    srv = socket.socket(socket.AF_UNIX, socket.SOCK_STREAM); srv.bind(sockpath); srv.listen(16)
    sel = selectors.DefaultSelector(); sel.register(srv, selectors.EVENT_READ)
    z = Zygote.get()
    cenv = {"VERIF_FS_ROOT": root if shim else None, "VERIF_FS_SOCK": sockpath if shim else None}
    procs = []
    for k, sp in enumerate(specs):
        procs.append(z.spawn(dict(sp, root=root), os.path.join(sockdir, "out%d" % k), cenv))
    idx = {p.pid: i for i, p in enumerate(procs)}
    bufs = {}; waiting = {}; conn_of = {}; trace = []; last = time.time(); t0 = time.time(); step = 0; actors = {}
    try:
        while any(p.poll() is None for p in procs) or waiting:
            for key, _ in sel.select(0.005):
                if key.fileobj is srv:
                    c, _ = srv.accept(); sel.register(c, selectors.EVENT_READ); bufs[c] = b""
                else:
                    c = key.fileobj
                    try: d = c.recv(8192)
                    except OSError: d = b""
                    if not d:
                        sel.unregister(c); c.close(); bufs.pop(c, None)
                        for k in [k for k, v in conn_of.items() if v is c]:
                            waiting.pop(k, None); conn_of.pop(k, None)
                        continue
                    bufs[c] += d
                    if b"\n" in bufs[c]:
                        line, bufs[c] = bufs[c].split(b"\n", 1); line = line.decode()
                        pi = idx.get(int(line.split(" ")[0]), -1)
                        tid = int(line.split(" ")[1])
                        if (pi, tid) not in actors:
                            nth = sum(1 for (p2, _t) in actors if p2 == pi)
                            actors[(pi, tid)] = pi if nth == 0 else pi + 10 * nth
                        a = actors[(pi, tid)]
                        if line.split(" ")[3].endswith(".verif_actor_exit"):
                            extra_threads = max(0, extra_threads - 1)
                            try: c.sendall(b"G\n")
                            except OSError: pass
                            continue
                        waiting[a] = Req(a, line, root); conn_of[a] = c
            alive = sum(p.poll() is None for p in procs) + extra_threads
            if waiting and (len(waiting) >= alive or time.time() - last > quiet_s):
                pi, verdict = policy(dict(waiting), step)
                step += 1
                req = waiting.pop(pi); c = conn_of.pop(pi)
                trace.append((req.short(), verdict))
                try: c.sendall((verdict + "\n").encode())
                except OSError: pass
                last = time.time()
            if time.time() - t0 > deadline: break
        outs = []
        for p in procs:
            if p.wait(10) is None:
                p.kill(); p.wait(5)
            rc = p.returncode if p.returncode is not None else -9
            outs.append((137 if rc == 137 else rc, p.lines(), p.err()))
        return outs, trace
    finally:
        for p in procs:
            if p.poll() is None: p.kill()
        srv.close(); shutil.rmtree(sockdir, ignore_errors=True)


def run_plain(root, spec, timeout=60):
    """One worker without the interposer, in a fresh process (forked from the zygote, which never used Memory)."""
    d = tempfile.mkdtemp(prefix="plain_", dir=os.path.dirname(root))
    try:
        ch = Zygote.get().spawn(dict(spec, root=root), os.path.join(d, "out"), {"VERIF_FS_ROOT": None, "VERIF_FS_SOCK": None})
        if ch.wait(timeout) is None:
            ch.kill(); ch.wait(5)
        return (ch.returncode if ch.returncode is not None else -9), ch.lines(), ch.err()
    finally:
        shutil.rmtree(d, ignore_errors=True)
