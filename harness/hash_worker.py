"""C08 worker: builds every term of Hasher.tla as a Python value in several construction orders and hashes it.
argv[1] = JSON {"terms": [...]} ; output: per term {"md5": [digests over variants], "sha1": [...]} (this interpreter's PYTHONHASHSEED is set by the parent)."""
import sys, json, itertools

LEAF = {"None": lambda: None, "True": lambda: True, "False": lambda: False, "i0": lambda: 0, "i1": lambda: 1, "f0": lambda: 0.0, "f1": lambda: 1.0,
        "fm0": lambda: -0.0, "sa": lambda: "".join(["a", "x"]), "sb": lambda: "".join(["b", "x"]), "ba": lambda: bytes([97, 120]), "se": lambda: "".join([])}
# (two-character strings / bytes: CPython caches one-character str and bytes objects, they could never be "equal but distinct")


def order(items, variant):
    items = list(items)
    if variant == 1: items.reverse()
    elif variant == 2 and len(items) > 1: items = items[1:] + items[:1]
    return items


def build(t, variant, share=None, memo=None):
    """share: None | "strings" (one object per equal str/bytes leaf) | "tuples" (one object per equal tuple)"""
    k = t[0]
    if share and memo is not None:
        key = json.dumps(t)
        if (share == "strings" and k == "leaf" and t[1] in ("sa", "sb", "ba", "se")) or (share == "tuples" and k == "tuple" and t[1]):
            if key not in memo: memo[key] = build(t, variant, None, None) if k == "leaf" else tuple(build(x, variant, share, memo) for x in t[1])
            return memo[key]
        if k == "list": return [build(x, variant, share, memo) for x in t[1]]
        if k == "tuple": return tuple(build(x, variant, share, memo) for x in t[1])
        if k == "set": return set(build(x, variant, share, memo) for x in order(t[1], variant))
        if k == "fset": return frozenset(build(x, variant, share, memo) for x in order(t[1], variant))
        if k == "dict": return {build(a, variant, share, memo): build(b, variant, share, memo) for a, b in order(t[1], variant)}
    if k == "leaf": return LEAF[t[1]]()
    if k == "list": return [build(x, variant) for x in t[1]]
    if k == "tuple": return tuple(build(x, variant) for x in t[1])
    if k == "set":
        s = set()
        for x in order(t[1], variant): s.add(build(x, variant))
        return s
    if k == "fset": return frozenset(build(x, variant) for x in order(t[1], variant))
    if k == "dict":
        d = {}
        for kk, vv in order(t[1], variant): d[build(kk, variant)] = build(vv, variant)
        return d
    raise ValueError(t)


import collections


class MyDict(dict):
    """a user subclass of dict"""


def flavoured(t, variant, flavour):
    """the value of term t with every dict replaced by another mapping type holding the same items (pickle reduces those through
    a one-shot iterator of items, not through dict.items())"""
    k = t[0]
    if k == "leaf": return LEAF[t[1]]()
    if k == "list": return [flavoured(x, variant, flavour) for x in t[1]]
    if k == "tuple": return tuple(flavoured(x, variant, flavour) for x in t[1])
    if k == "set": return set(flavoured(x, variant, flavour) for x in order(t[1], variant))
    if k == "fset": return frozenset(flavoured(x, variant, flavour) for x in order(t[1], variant))
    pairs = [(flavoured(a, variant, flavour), flavoured(b, variant, flavour)) for a, b in order(t[1], variant)]
    if flavour == "ordered": return collections.OrderedDict(pairs)
    if flavour == "default":
        d = collections.defaultdict(list); d.update(pairs); return d
    return MyDict(pairs)


def main():
    job = json.load(open(sys.argv[1]))
    import joblib
    out = []
    for t in job["terms"]:
        rec = {}
        try:
            for hn in ("md5", "sha1"):
                rec[hn] = sorted({joblib.hash(build(t, v), hash_name=hn) for v in (0, 1, 2)})
            # hashing the same object twice / a second equal object
            o = build(t, 0); rec["again"] = joblib.hash(o) == joblib.hash(o) == joblib.hash(build(t, 0))
            rec["shared_strings"] = joblib.hash(build(t, 0, "strings", {})) in rec["md5"]
            rec["shared_tuples"] = joblib.hash(build(t, 0, "tuples", {})) in rec["md5"]
            if '"dict"' in json.dumps(t):
                # (OrderedDict: one insertion order only - its equality depends on the order)
                rec["flavours"] = {fl: sorted({joblib.hash(flavoured(t, v, fl)) for v in ((0,) if fl == "ordered" else (0, 1, 2))}) for fl in ("ordered", "default", "subclass")}
        except Exception as e:
            rec["exc"] = repr(e)[:200]
        out.append(rec)
    json.dump(out, open(sys.argv[1] + ".out", "w"))


if __name__ == "__main__":
    main()
