"""L1: one OS thread drives the real, unmodified joblib.Parallel through a ControlledBackend.

Every source of nondeterminism is a *choice point* answered by a chooser:
  lock    the caller is about to enter a critical section (outermost acquire of Parallel._lock)
          options: go | deliver the completion callback of one pending batch (atomically, inline)
  poll    the caller polls (time.sleep in the retrieval loop; virtual clock)
          options: deliver one pending completion | tick (only advance the clock) when nothing can complete
  wait    backends without retrieve-callback: the caller blocks in retrieve_result(job)
  submit  (inline backends) run the batch and its callback inside submit(), or defer
  bsize   compute_batch_size() of an 'auto' batching backend: any of cfg["bsizes"]
  cons    generator consumer: next | close | call-again (must be rejected)
  gap     between two calls: deliver late completions of the previous call, or go on

The observable events of specs/ParallelAbs.tla are recorded; nothing of joblib's internals is read
(only the documented backend extension API, the module-global `time`, and the `_lock` attribute wrap).
"""
import sys, types, threading, collections, time as _time, warnings
import multiprocessing as _mp
import joblib.parallel as jp
from joblib import Parallel, delayed
from joblib._parallel_backends import ParallelBackendBase, AutoBatchingMixin


class Hang(BaseException):
    pass


class TaskError(Exception):
    pass


class IterError(Exception):
    pass


class Fut:
    __slots__ = ("r", "e", "done", "hang", "wait")

    def __init__(self):
        self.r = None; self.e = None; self.done = False; self.hang = False; self.wait = None

    def get(self, timeout=None):
        if not self.done and self.wait is not None:
            self.wait(self, timeout)       # legacy protocol: the caller blocks in get() (ParallelBackendBase.retrieve_result)
        if self.e is not None:
            raise self.e
        return self.r


MODES = {"list": "list", "generator": "gen", "generator_unordered": "unord"}


def default_cfg(**kw):
    cfg = dict(mode="list", nj=2, pre=2, bs=1, bsizes=None, rc=True, inline=False, timeout=None, managed=False,
               calls=[dict(n=3, fail=(), iterfail=None, hang=(), cons="drain")], gap=True)
    cfg.update(kw)
    return cfg


def pre_tasks(pre, nj):
    if pre == "all":
        return 0
    if isinstance(pre, str):
        from joblib._utils import eval_expr
        return int(eval_expr(pre.replace("n_jobs", str(nj))))
    return int(pre)


class Run:
    """One execution of a scenario under a chooser.  chooser(kind, n_options, info) -> index."""

    def __init__(self, cfg, chooser):
        self.cfg = cfg; self.chooser = chooser
        self.events = []; self.choices = []      # (kind, chosen, n)
        self.dtrace = []; self.cbdepth = 0; self.lastsub = None; self.npull = 0
        self.clock = 0.0
        self.notes = []
        self.blog = []          # backend life-cycle protocol trace (BackendProtocol.tla)

    def bev(self, ev, **kw):
        self.blog.append(dict(ev=ev, **kw))

    def choose(self, kind, n, info=None):
        if n <= 1:
            obs = getattr(self.chooser, "observe", None)
            if obs is not None: obs(kind)
            return 0
        c = self.chooser(kind, n, info)
        if not (0 <= c < n):
            c = 0
        self.choices.append((kind, c, n))
        return c

    def ev(self, **e):
        self.events.append(e)

    # -------------------------------------------------------------------------------------
    def execute(self):
        cfg = self.cfg; R = self
        nj = cfg["nj"]
        maxb = (64 if cfg.get("autobatch") else max(cfg["bsizes"])) if cfg["bs"] == "auto" else cfg["bs"]

        auto = cfg.get("autobatch")

        class Ctl(*((AutoBatchingMixin, ParallelBackendBase) if auto else (ParallelBackendBase,))):
            supports_retrieve_callback = cfg["rc"]
            supports_return_generator = True
            supports_timeout = True
            uses_threads = True
            supports_sharedmem = True

            def __init__(s, **kw):
                super().__init__(**kw); s.pending = []; s.log = []

            def effective_n_jobs(s, n_jobs): return nj

            def configure(s, n_jobs=1, parallel=None, **kw):
                s.parallel = parallel; s.log.append("configure")
                if not getattr(s, "_in_abort", False): R.bev("Configure")
                return nj

            def start_call(s): s.log.append("start_call"); R.bev("StartCall")

            def stop_call(s): s.log.append("stop_call"); R.bev("StopCall")

            def _shutdown_point(s, kind):
                # while a real pool shuts down, tasks that are already running may still finish and have their
                # callbacks delivered: up to 2 of them here, chosen by the schedule
                for _ in range(2):
                    ready = s.completable()
                    c = R.choose(kind, 1 + len(ready))
                    if c == 0:
                        break
                    s.complete(ready[c - 1])

            def terminate(s):
                s.log.append("terminate"); R.bev("Terminate"); s._shutdown_point("term")

            def abort_everything(s, ensure_ready=True):
                s.log.append("abort"); R.bev("Abort", ready=bool(ensure_ready))
                # a real pool cannot recall what already runs; queued work may or may not run: keep pending
                s._shutdown_point("abort")
                if ensure_ready:
                    s._in_abort = True
                    try: s.configure(n_jobs=s.parallel.n_jobs, parallel=s.parallel)
                    finally: s._in_abort = False

            if not auto:
                # scripted batch sizes; with cfg["autobatch"] the real AutoBatchingMixin decides, fed with scripted durations
                def compute_batch_size(s):
                    opts = cfg["bsizes"]
                    return opts[R.choose("bsize", len(opts))]

                def batch_completed(s, batch_size, duration): pass

            def submit(s, func, callback=None):
                f = Fut()
                if not cfg["rc"]: f.wait = s._wait
                idx = [it[1][0] for it in func.items]; tag = func.items[0][1][1]
                lo, hi = min(idx), max(idx) + 1
                R.ev(ev="Submit", c=tag, lo=lo, hi=hi); R.bev("Submit")
                if R.cbdepth == 0:
                    R.dtrace.append(dict(ev="Sub", lo=lo, hi=hi))
                else:
                    R.lastsub = (lo, hi)
                item = (func, callback, f, tag, lo, hi)
                s.pending.append(item)
                hang = any(i in R.cur["hang"] for i in idx) and tag == R.callno
                f.hang = hang
                if cfg["inline"] and not hang and R.choose("submit", 2) == 1:
                    s.pending.remove(item); s._complete(item)
                return f

            def retrieve_result_callback(s, out): return out.get()

            # rc=False: ParallelBackendBase.retrieve_result (not overridden) calls out.get(timeout=...) / out.get()
            def _wait(s, out, timeout=None):
                while not out.done:
                    ready = [k for k, it in enumerate(s.pending) if not it[2].hang]
                    if not ready:
                        if timeout is not None:
                            # the caller blocks for `timeout` virtual seconds: recorded as that many polls
                            for _ in range(int(round(timeout / 0.01)) + 1):
                                R.clock += 0.01; R.ev(ev="Poll")
                            raise TimeoutError()
                        raise Hang()
                    k = ready[R.choose("wait", len(ready))]
                    s._complete(s.pending.pop(k))

            def completable(s):
                return [k for k, it in enumerate(s.pending) if not it[2].hang]

            def complete(s, k):
                s._complete(s.pending.pop(k))

            def _complete(s, item):
                func, cb, f, tag, lo, hi = item
                ok = True
                if auto:
                    R.clock += auto[R.choose("dur", len(auto))] * (hi - lo)      # virtual duration of this batch
                # run the batch task by task so that TStart/TEnd are per task (BatchedCalls.__call__ does the same loop)
                try:
                    f.r = func()
                except BaseException as e:
                    f.e = e; ok = False
                f.done = True
                R.cbdepth += 1; saved = R.lastsub; R.lastsub = None
                try:
                    if cb is not None:
                        cb(f)
                finally:
                    R.cbdepth -= 1
                sub = R.lastsub; R.lastsub = saved
                R.ev(ev="CbEnd", c=tag, lo=lo, hi=hi, ok=ok)
                P = R.p
                R.dtrace.append(dict(ev="Cb", c=tag + 1, lo=lo, ok=ok, sub=sub is not None, slo=sub[0] if sub else -1,
                                     shi=sub[1] if sub else -1, pulled=R.npull,
                                     nd=getattr(P, "n_dispatched_tasks", 0), nc=getattr(P, "n_completed_tasks", 0)))

        be = Ctl()
        self.be = be
        kw = {}
        if cfg["timeout"] is not None:
            kw["timeout"] = cfg["timeout"]
        if cfg.get("verbose"):
            kw["verbose"] = cfg["verbose"]
        p = Parallel(n_jobs=nj, backend=be, batch_size=cfg["bs"], pre_dispatch=cfg["pre"], return_as=cfg["mode"], **kw)
        self.p = p
        busy = [False]; idle = [0]

        def sched_point(kind):
            if busy[0]:
                return
            busy[0] = True
            try:
                ready = be.completable()
                if kind == "sleep":
                    R.clock += 0.01
                    R.ev(ev="Poll")
                    can_tick = cfg["timeout"] is not None and (len(ready) < len(be.pending) or not be.pending)
                    if not ready:
                        if cfg["timeout"] is not None:
                            idle[0] += 1
                            if idle[0] > int(cfg["timeout"] / 0.01) + 20:
                                raise Hang()
                            return
                        idle[0] += 1
                        if idle[0] > 3:
                            raise Hang()
                        return
                    n = len(ready) + (1 if can_tick else 0)
                    c = R.choose("poll", n)
                    if c < len(ready):
                        idle[0] = 0; be.complete(ready[c])
                    return
                c = R.choose("lock", 1 + len(ready))
                if c > 0:
                    idle[0] = 0; be.complete(ready[c - 1])
            finally:
                busy[0] = False

        class SchedLock:
            def __init__(s): s._l = threading.RLock(); s.depth = 0

            def __enter__(s):
                if s.depth == 0:
                    sched_point("lock")
                s._l.acquire(); s.depth += 1; return s

            def __exit__(s, *a):
                s.depth -= 1; s._l.release()

            def acquire(s, *a, **k):
                s.__enter__(); return True

            def release(s): s.__exit__()

        p._lock = SchedLock()
        saved_time = jp.time
        jp.time = types.SimpleNamespace(time=lambda: R.clock, sleep=lambda t: sched_point("sleep"))
        import contextlib, io
        quiet = contextlib.ExitStack()
        if cfg.get("verbose"):
            quiet.enter_context(contextlib.redirect_stdout(io.StringIO())); quiet.enter_context(contextlib.redirect_stderr(io.StringIO()))
        try:
            if cfg["managed"] is True:
                R.bev("Enter")
                with p:
                    self._calls(p, be, idle)
                R.bev("Exit")
            else:
                self._calls(p, be, idle)
            R.bev("Done")
        finally:
            jp.time = saved_time
            quiet.close()
        self.backend_log = be.log
        return self

    # -------------------------------------------------------------------------------------
    def _calls(self, p, be, idle):
        cfg = self.cfg; R = self; nj = cfg["nj"]
        maxb = (64 if cfg.get("autobatch") else max(cfg["bsizes"])) if cfg["bs"] == "auto" else cfg["bs"]
        pre = pre_tasks(cfg["pre"], nj)
        if cfg.get("warn_error"):
            # the user runs with warnings turned into errors (python -W error, pytest filterwarnings=error)
            warnings.simplefilter("error")
        for callno, cs in enumerate(cfg["calls"]):
            self.callno = callno; self.cur = dict(n=cs["n"], fail=set(cs.get("fail", ())), iterfail=cs.get("iterfail"),
                                                  hang=set(cs.get("hang", ())))
            n = cs["n"]; fail = self.cur["fail"]; iterfail = self.cur["iterfail"]

            def task(i, c):
                # n_jobs == 1: joblib runs the tasks in the caller, one at a time, without any backend: in the vocabulary of
                # the contract the caller dispatches the one-task batch when it starts it and completes it when it ends
                seq = nj == 1
                if seq: R.ev(ev="Submit", c=c, lo=i, hi=i + 1)
                R.ev(ev="TStart", c=c, i=i)
                if i in set(cfg["calls"][c].get("fail", ())):
                    R.ev(ev="TEnd", c=c, i=i, ok=False)
                    if seq: R.ev(ev="CbEnd", c=c, lo=i, hi=i + 1, ok=False)
                    raise TaskError(c, i)
                R.ev(ev="TEnd", c=c, i=i, ok=True)
                if seq: R.ev(ev="CbEnd", c=c, lo=i, hi=i + 1, ok=True)
                return (c, i)

            class It:
                def __init__(s, c): s.c = c; s.i = 0
                if iterfail == "len":
                    def __len__(s):
                        # len(iterable) is evaluated by Parallel.__call__ for its progress messages
                        R.ev(ev="PullIn", c=s.c, th=1); R.ev(ev="PullRaise", c=s.c, th=1)
                        raise IterError(s.c)

                def __iter__(s):
                    if iterfail == "iter":
                        # the iterable itself cannot be iterated: iter(iterable) raises inside Parallel.__call__
                        R.ev(ev="PullIn", c=s.c, th=1); R.ev(ev="PullRaise", c=s.c, th=1)
                        raise IterError(s.c)
                    return s
                def __next__(s):
                    R.ev(ev="PullIn", c=s.c, th=1)
                    if iterfail is not None and s.i == iterfail:
                        R.ev(ev="PullRaise", c=s.c, th=1)
                        s.i = n + 1
                        raise IterError(s.c)
                    if s.i >= n:
                        R.ev(ev="PullStop", c=s.c, th=1)
                        raise StopIteration
                    i = s.i; s.i += 1
                    if s.c == R.callno: R.npull += 1
                    R.ev(ev="Pull", c=s.c, i=i, th=1)
                    return delayed(task)(i, s.c)

            ticks = -1 if cfg["timeout"] is None else int(round(cfg["timeout"] / 0.01))
            R.ev(ev="CallStart", legacy=not cfg["rc"], c=callno, n=n, mode=MODES[cfg["mode"]], nj=nj, maxb=maxb, pre=pre,
                 bound=pre + 2 * nj * maxb, slack=1, ticks=ticks, serial=not cfg["inline"])
            idle[0] = 0
            kind = None; ei = -1
            gen = None
            R.npull = 0; nres = -1
            R.dtrace.append(dict(ev="CS"))
            per_call = cfg["managed"] == "per_call"
            inside = False
            try:
                if per_call:
                    R.bev("Enter"); p.__enter__(); inside = True
                R.bev("Call", gen=cfg["mode"] != "list")
                r = p(It(callno))
                if cfg["mode"] == "list":
                    for x in r:
                        R.ev(ev="Yield", c=x[0], i=x[1])
                    kind = "returned"; nres = len(r)
                else:
                    gen = r
                    cons = cs.get("cons", "drain")
                    while True:
                        act = 0
                        if cons == "free":
                            act = R.choose("cons", 3)          # 0 next, 1 close, 2 call again
                        elif cons == "close":
                            act = R.choose("cons", 2)
                        elif cons == "leave" and inside:
                            act = 3 if R.choose("cons", 2) == 1 else 0
                        if act == 3:
                            # leave the `with` block while the output generator is alive and unfinished:
                            # the run is abandoned (aborted); calling the object again must still be rejected
                            # as long as the generator lives, and the generator must end cleanly
                            R.ev(ev="Close")
                            inside = False; p.__exit__(None, None, None); R.bev("Exit")
                            try:
                                R.bev("Probe")
                                r2 = p(iter(()))
                                R.ev(ev="Overlap")
                                for x in r2: R.ev(ev="OverlapYield", c=x[0], i=x[1])
                                R.bev("ProbeEnd", ok=True)
                            except RuntimeError:
                                R.ev(ev="Rejected"); R.bev("ProbeEnd", ok=False)
                            try:
                                gen.close()
                            except Warning as w:
                                R.notes.append("close() raised the warning: " + str(w)[:80])
                            kind = "closed"; break
                        if act == 1:
                            R.ev(ev="Close"); R.dtrace.append(dict(ev="Close"))
                            try:
                                gen.close()
                            except Warning as w:
                                # warnings are errors in this run (python -W error): the "exit early" warning surfaces from close()
                                R.notes.append("close() raised the warning: " + str(w)[:80])
                            kind = "closed"; break
                        if act == 2:
                            # probe: call the object again while the generator is alive (empty input)
                            try:
                                R.bev("Probe")
                                r2 = p(iter(()))
                                R.ev(ev="Overlap")
                                for x in r2: R.ev(ev="OverlapYield", c=x[0], i=x[1])
                                R.bev("ProbeEnd", ok=True)
                            except RuntimeError:
                                R.ev(ev="Rejected"); R.bev("ProbeEnd", ok=False)
                            continue
                        R.ev(ev="Next"); R.dtrace.append(dict(ev="Next"))
                        try:
                            x = next(gen)
                            R.ev(ev="Yield", c=x[0], i=x[1]); R.dtrace.append(dict(ev="Y", i=x[1]))
                        except StopIteration:
                            kind = "returned"; break
            except TaskError as e:
                kind = "raised_task"; ei = e.args[1] if e.args[0] == callno else -1
            except IterError as e:
                kind = "raised_iter" if e.args[0] == callno else "other:IterErrorOfOtherCall"
            except (TimeoutError, _mp.TimeoutError):
                kind = "timeout"
            except Hang:
                kind = "hang"
            except BaseException as e:
                kind = "other:" + type(e).__name__
                self.notes.append(repr(e)[:200])
            if inside:
                inside = False
                try:
                    p.__exit__(None, None, None)
                except BaseException as e:
                    kind = "other:exit:" + type(e).__name__
                R.bev("Exit")
            R.bev("End", kind=(kind or "none").split(":")[0])
            R.ev(ev="End", kind=kind, i=ei)
            R.dtrace.append(dict(ev="End", kind=kind, n=nres))
            if kind == "hang":
                break
            # late completions of this call, delivered before the next call starts
            if cfg.get("gap", True) and callno + 1 < len(cfg["calls"]):
                while True:
                    ready = be.completable()
                    c = R.choose("gap", 1 + len(ready))
                    if c == 0:
                        break
                    be.complete(ready[c - 1])
            del gen


def run_schedule(cfg, schedule):
    """Replay a list of choice indices (missing entries = 0).  Returns the Run."""
    pos = [0]

    def chooser(kind, n, info):
        i = pos[0]; pos[0] += 1
        return schedule[i] if i < len(schedule) else 0
    with warnings.catch_warnings():
        warnings.simplefilter("ignore")
        return Run(cfg, chooser).execute()


def dfs(cfg, limit=100000, on_run=None):
    """Stateless DFS over all choice sequences.  Returns (runs, truncated)."""
    stack = [[]]; runs = 0
    while stack and runs < limit:
        prefix = stack.pop()
        r = run_schedule(cfg, prefix); runs += 1
        if on_run: on_run(r, prefix)
        ch = r.choices
        for i in range(len(prefix), len(ch)):
            kind, c, n = ch[i]
            for alt in range(1, n):
                stack.append([x[1] for x in ch[:i]] + [alt])
    return runs, bool(stack)


def random_runs(cfg, count, rng, on_run=None, bias=0.5):
    for _ in range(count):
        def chooser(kind, n, info):
            if kind in ("lock", "abort", "term", "gap") and rng.random() < bias:
                return 0
            return rng.randrange(n)
        with warnings.catch_warnings():
            warnings.simplefilter("ignore")
            r = Run(cfg, chooser).execute()
        if on_run: on_run(r, [c for _, c, _ in r.choices])


def protocol_trace(blog):
    """the backend life-cycle log in the vocabulary of BackendProtocol.tla: an accepted probe is a Call ... End(returned),
    a rejected one is the single event Rejected (at the point where the RuntimeError was raised)"""
    out = []
    for k, e in enumerate(blog):
        if e["ev"] == "Probe":
            ok = next((x["ok"] for x in blog[k + 1:] if x["ev"] == "ProbeEnd"), False)
            if ok: out.append(dict(ev="Call", gen=True))
        elif e["ev"] == "ProbeEnd":
            out.append(dict(ev="End", kind="returned") if e["ok"] else dict(ev="Rejected"))
        else:
            out.append(e)
    return out
