"""Worker for C02/C06: runs a generated program of cached calls over many signatures in one process.
argv[1] = path of a JSON program:
  {"root": cache dir, "moddir": dir, "module_src": source of module `sigmod` defining the functions,
   "steps": [{"f": name, "kind": "function"|"method"|"partial"|"async", "args": "<python expr of a tuple>", "kwargs": "<expr of a dict>",
              "mode": "call"|"shelve"|"check", "ignore": [..], "compress": false}, ...]}
Every function body calls sigmod._ran(name) which counts executions (only while sigmod.COUNTING).
Output: one JSON line per step: {"value": repr, "plain": repr of what the undecorated callable returns, "executed": n, ...}."""
import sys, os, json, warnings, importlib, asyncio, functools


def main():
    prog = json.load(open(sys.argv[1]))
    warnings.simplefilter("ignore")
    os.makedirs(prog["moddir"], exist_ok=True)
    p = os.path.join(prog["moddir"], "sigmod.py")
    if not os.path.exists(p) or open(p).read() != prog["module_src"]:
        with open(p, "w") as h: h.write(prog["module_src"])
    sys.path.insert(0, prog["moddir"])
    import joblib
    sigmod = importlib.import_module("sigmod")
    mems = {}
    wrappers = {}

    def enter_store(step):
        """stores named "_REL@X" are the RELATIVE location "relcache" used from working directory <root>_cwdX: the same
        spelling designates a different directory in each working directory"""
        st = step.get("store", "")
        if st.startswith("_REL@"):
            d = prog["root"] + "_cwd" + st[5:]; os.makedirs(d, exist_ok=True); os.chdir(d)

    def wrapper(step):
        enter_store(step)
        if step.get("store", "").startswith("_REL@"):
            # ONE Memory("relcache") object (and one wrapper) used from several working directories
            step = dict(step, store="_REL@")
        key = (step["f"], step.get("kind", "function"), tuple(step.get("ignore") or ()), bool(step.get("compress")), step.get("frozen"), step.get("store", ""), bool(step.get("wrapped")), bool(step.get("redecorate")), bool(step.get("pickled")), int(step.get("verbose", 0)))
        if key not in wrappers:
            ck = (bool(step.get("compress")), step.get("store", ""), int(step.get("verbose", 0)))
            if ck not in mems:
                # (messages of a verbose Memory go to stdout: the reader of this program's output only takes the JSON lines)
                if ck[1] == "_USER":
                    # a store backend registered by the user (public register_store_backend): the local store under another root
                    from joblib._store_backends import FileSystemStoreBackend

                    class PrefixedStore(FileSystemStoreBackend):
                        def configure(self, location, verbose=1, backend_options=None):
                            super().configure(os.path.join(location, "blobs"), verbose=verbose, backend_options=backend_options)
                    joblib.register_store_backend("verifstore", PrefixedStore)
                    mems[ck] = joblib.Memory(prog["root"] + "_USER", backend="verifstore", verbose=ck[2], compress=ck[0])
                else:
                    mems[ck] = joblib.Memory("relcache" if ck[1].startswith("_REL@") else prog["root"] + step.get("store", ""), verbose=ck[2], compress=ck[0])
            kind = step.get("kind", "function")
            if kind == "method":
                target = getattr(sigmod, "INST_" + step["f"]).m
            elif kind == "expr":
                target = eval(step["f"], vars(sigmod))          # e.g. a bound method of a module-level instance
            elif kind == "partial":
                if ("frozen_obj", step.get("frozen")) not in wrappers:
                    wrappers[("frozen_obj", step.get("frozen"))] = eval(step.get("frozen", "()"), {"frozenset": frozenset, "Opaque": getattr(sigmod, "Opaque", None)})
                target = functools.partial(getattr(sigmod, step["f"]), *wrappers[("frozen_obj", step.get("frozen"))])
                if step.get("wrapped"):
                    target = functools.update_wrapper(target, getattr(sigmod, step["f"]))
            else:
                target = getattr(sigmod, step["f"])
            w0 = mems[ck].cache(target, ignore=list(step["ignore"])) if step.get("ignore") else mems[ck].cache(target)
            if step.get("redecorate"):
                w0 = mems[ck].cache(w0)           # Memory.cache applied to an already cached function
            if step.get("pickled"):
                # the wrapper travelled through pickle (as when it is sent to a worker process)
                import pickle
                w0 = pickle.loads(pickle.dumps(w0))
            wrappers[key] = (w0, target)
        return wrappers[key]

    env = {"frozenset": frozenset}
    for step in prog["steps"]:
        rec = {}
        try:
            w, plain = wrapper(step)
            args = eval(step["args"], env); kwargs = eval(step["kwargs"], env)
            is_async = step.get("kind") == "async"
            sigmod.COUNTING = False
            try:
                pv = plain(*args, **kwargs)
                if is_async: pv = asyncio.run(pv)
                rec["plain"] = repr(pv)
            except TypeError as e:
                rec["plain_exc"] = "TypeError"
            sigmod.COUNTING = True
            before = sigmod.COUNT[0]
            if step["mode"] == "check":
                rec["value"] = repr(bool(w.check_call_in_cache(*args, **kwargs)))
            elif step["mode"] == "force":
                r = w.call(*args, **kwargs)           # forced execution: (output, metadata), stored like an ordinary call
                if is_async: r = asyncio.run(r)
                rec["value"] = repr(r[0])
            elif step["mode"] == "shelve":
                r = w.call_and_shelve(*args, **kwargs)
                if is_async: r = asyncio.run(r)
                rec["value"] = repr(r.get())
            else:
                r = w(*args, **kwargs)
                if is_async: r = asyncio.run(r)
                rec["value"] = repr(r)
            rec["executed"] = sigmod.COUNT[0] - before
        except BaseException as e:
            rec["exc"] = type(e).__name__; rec["msg"] = str(e)[:200]
        sys.stdout.write(json.dumps(rec) + "\n")
    sys.stdout.flush()


if __name__ == "__main__":
    main()
