"""C20 worker: drives loky's resource tracker (resource_tracker.main on a private pipe, forked per request sequence).
argv[1] = JSON {"dir": scratch, "hists": [[{c, cmd, x, ex, cnt}, ...], ...], "clients": [1, 2], "hook": bool}
Clients are duplicated write ends held by this process (closing one = that client is gone).  After every request a sentinel
barrier (REGISTER + MAYBE_UNLINK of a fresh file; FIFO pipe, single reader) proves that all earlier requests were processed."""
import sys, os, json, time, shutil, signal

GARBAGE = [b"NOCOLON\n", b"REGISTER:x:weird\n", b"FOO:x:file\n", b"\xff\xfe:x:file\n", b":::\n", b"MAYBE_UNLINK::file\n", b"\n", b"   \n"]


def main():
    job = json.load(open(sys.argv[1]))
    import warnings; warnings.simplefilter("ignore")
    import joblib  # noqa: F401  (registers joblib's cleanup function for files)
    from joblib.externals.loky.backend import resource_tracker as rt
    out = []
    for hi, hist in enumerate(job["hists"]):
        d = os.path.join(job["dir"], "h%d" % hi); os.makedirs(os.path.join(d, "d", "e")); os.makedirs(os.path.join(d, "h"))
        paths = {"f1": os.path.join(d, "f1"), "f2": os.path.join(d, "f2"), "d": os.path.join(d, "d"), "g": os.path.join(d, "d", "g"),
                 "e": os.path.join(d, "d", "e"), "h": os.path.join(d, "h")}
        for n in ("f1", "f2", "g"): open(paths[n], "w").write("x")
        never = os.path.join(d, "never_registered"); open(never, "w").write("x")
        trace = os.path.join(d, "trace.ndjson")
        r, w = os.pipe()
        pid = os.fork()
        if pid == 0:
            try:
                os.close(w)
                devnull = os.open(os.devnull, os.O_WRONLY); os.dup2(devnull, 2)
                if job.get("hook"): os.environ["JOBLIB_VERIF_TRACE"] = trace
                else: os.environ.pop("JOBLIB_VERIF_TRACE", None)
                rt.main(r)
            finally:
                os._exit(0)
        os.close(r)
        fds = {c: os.dup(w) for c in job["clients"]}
        os.close(w)
        rec = {"i": hi, "problems": [], "synced": 0}
        nsent = [0]

        def alive():
            p, st = os.waitpid(pid, os.WNOHANG)
            return p == 0

        def barrier(c):
            nsent[0] += 1
            s = os.path.join(d, "sentinel%d" % nsent[0]); open(s, "w").close()
            try: os.write(fds[c], ("REGISTER:%s:file\nMAYBE_UNLINK:%s:file\n" % (s, s)).encode())
            except OSError: return False          # nobody reads any more: the tracker is gone
            t0 = time.time()
            while os.path.exists(s):
                if time.time() - t0 > 10: return False
                time.sleep(0.0002)
            return True
        dead = False; eof_seen = False; k = 0
        for k, e in enumerate(hist):
            cmd = e["cmd"]
            if cmd == "EOF":
                eof_seen = True; break
            if cmd == "GONE":
                os.close(fds.pop(e["c"])); continue
            if cmd == "CREATE":
                if e["x"] in ("d", "e", "h"): os.makedirs(paths[e["x"]], exist_ok=True)
                else: open(paths[e["x"]], "w").write("again")
                continue
            c = e["c"]
            rtype = "folder" if e["x"] in ("d", "e", "h") else "file"
            try:
                if cmd == "GARBAGE": os.write(fds[c], GARBAGE[k % len(GARBAGE)])
                else: os.write(fds[c], ("%s:%s:%s\n" % (cmd, paths[e["x"]], rtype)).encode())
                sent = True
            except OSError:
                sent = False
            if not sent or not barrier(c):
                rec["problems"].append({"kind": "tracker_stopped", "step": k, "after": [cmd, e["x"]]}); dead = True; break
            rec["synced"] += 1
            ex = {n for n, p in paths.items() if os.path.exists(p)}
            if ex != set(e["ex"]):
                rec["problems"].append({"kind": "existence", "step": k, "after": [cmd, e["x"]], "on_disk": sorted(ex), "spec": sorted(e["ex"]), "counts_before_spec": hist[k - 1]["cnt"] if k else None})
                break
        # everybody goes away: what is still registered must be deleted, nothing else
        last = hist[k - 1] if (eof_seen and k > 0) else hist[k] if hist else None
        for c in list(fds): os.close(fds.pop(c))
        if not dead:
            t0 = time.time()
            while alive():
                if time.time() - t0 > 10:
                    rec["problems"].append({"kind": "tracker_does_not_exit"}); os.kill(pid, signal.SIGKILL); break
                time.sleep(0.0005)
            if not rec["problems"] and last is not None:
                cnt = last["cnt"]; ex0 = set(last["ex"])
                gone = {n for n in cnt if cnt[n] > 0}
                if "d" in gone: gone.update(("g", "e"))
                want = ex0 - gone
                ex = {n for n, p in paths.items() if os.path.exists(p)}
                if ex != want:
                    rec["problems"].append({"kind": "final_cleanup", "on_disk": sorted(ex), "spec": sorted(want), "counts": cnt})
            if not os.path.exists(never):
                rec["problems"].append({"kind": "deleted_unregistered_path"})
        else:
            try: os.kill(pid, signal.SIGKILL); os.waitpid(pid, 0)
            except OSError: pass
        if job.get("hook") and os.path.exists(trace):
            evs = [json.loads(l) for l in open(trace)]
            mine = [x for x in evs if x["ev"] != "EOF" and "sentinel" not in x.get("name", "")]
            reqs = [e for e in hist if e["cmd"] in ("REGISTER", "UNREGISTER", "MAYBE_UNLINK", "GARBAGE")][:len(mine)]     # (CREATE does not go through the tracker)
            rec["count_mismatch"] = sum(1 for a, b in zip(mine, reqs) if a["ev"] != "error" and b["cmd"] != "GARBAGE" and a["count"] != b["cnt"][b["x"]])
            rec["hook_events"] = len(evs)
        out.append(rec)
        shutil.rmtree(d, ignore_errors=True)
    json.dump(out, open(sys.argv[1] + ".out", "w"))


if __name__ == "__main__":
    main()
