# setup_cmd: make -C /verif   (offline; system gcc only)
all: build/fsshim.so

build/fsshim.so: harness/fsshim/fsshim.c
	mkdir -p build
	gcc -O2 -shared -fPIC -o build/fsshim.so harness/fsshim/fsshim.c -ldl -lpthread

clean:
	rm -rf build out
