----------------------------- MODULE ArrayLayout -----------------------------
(***************************************************************************)
(* Array persistence layout (C19): what the specification can decide.      *)
(*  - writer/reader agreement on the padding in front of the array bytes:  *)
(*    one byte holding pad, then pad bytes, pad = A - ((pos + 1) mod A),   *)
(*    so that the data start at an offset that is a multiple of A = 16 -   *)
(*    for EVERY file position pos at which the array record may start;     *)
(*  - when load(mmap_mode=m) may return a memory map: only for an          *)
(*    uncompressed file, a dtype without Python objects, m # None;         *)
(*  - when an array passed to a process worker is memory-mapped:           *)
(*    nbytes > max_nbytes, no Python objects (or it is memmap-backed).     *)
(* Bit-exactness is decided by comparison with the original array, not     *)
(* here.  TLC enumerates the cases with the dictated flags.                *)
(***************************************************************************)
EXTENDS Integers, Sequences, FiniteSets, TLC, Json
CONSTANTS A, MaxPos, DTypes, Shapes, Layouts, Compressors, MmapModes, Containers

Pad(pos) == A - ((pos + 1) % A)
DataOffset(pos) == pos + 1 + Pad(pos)
\* the reader skips 1 + (value of the padding byte) bytes
ReaderOffset(pos) == pos + 1 + Pad(pos)

Aligned == \A pos \in 0..MaxPos : DataOffset(pos) % A = 0 /\ Pad(pos) \in 1..A /\ ReaderOffset(pos) = DataOffset(pos)

HasObject(d) == d = "object"
MayMemmap(d, comp, mode) == comp = "none" /\ ~HasObject(d) /\ mode # "None"

VARIABLES d, sh, lay, comp, mode, cont
vars == <<d, sh, lay, comp, mode, cont>>
Init == d \in DTypes /\ sh \in Shapes /\ lay \in Layouts /\ comp \in Compressors /\ mode \in MmapModes /\ cont \in Containers
Next == UNCHANGED vars
\* memory maps are only asked for on uncompressed files in the enumeration of interest
Interesting == (mode # "None" => comp \in {"none", "zlib"}) /\ (lay = "memmap" => d # "object")
Emit == Interesting => PrintT(ToJson([dtype |-> d, shape |-> sh, layout |-> lay, compress |-> comp, mmap_mode |-> mode, container |-> cont,
                                      memmap |-> MayMemmap(d, comp, mode)]))
=============================================================================
