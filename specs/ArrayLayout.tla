----------------------------- MODULE ArrayLayout -----------------------------
(***************************************************************************)
(* Array persistence layout (C19): what the specification can decide.      *)
(*  - writer/reader agreement on the padding in front of the array bytes:  *)
(*    one byte holding pad, then pad bytes, pad = A - ((pos + 1) mod A),   *)
(*    so that the data start at an offset that is a multiple of A = 16 -   *)
(*    for EVERY file position pos at which the array record may start;     *)
(*  - when load(mmap_mode=m) may return a memory map: only for an          *)
(*    uncompressed file, a dtype without Python objects, m # None;         *)
(*  - when an array passed to a process worker is memory-mapped:           *)
(*    nbytes > max_nbytes, no Python objects (or it is memmap-backed).     *)
(*  - array subclasses: joblib's own array record is written for exactly   *)
(*    ndarray, matrix and memmap objects; every other subclass (recarray,   *)
(*    masked array, user classes) is pickled by numpy's own __reduce__,     *)
(*    its bytes live inside the pickle stream and are never memory-mapped.  *)
(* Bit-exactness is decided by comparison with the original array, not     *)
(* here.  TLC enumerates the cases with the dictated flags.                *)
(***************************************************************************)
EXTENDS Integers, Sequences, FiniteSets, TLC, Json
CONSTANTS A, MaxPos, DTypes, Shapes, Layouts, Compressors, MmapModes, Containers, Classes

Pad(pos) == A - ((pos + 1) % A)
DataOffset(pos) == pos + 1 + Pad(pos)
\* the reader skips 1 + (value of the padding byte) bytes
ReaderOffset(pos) == pos + 1 + Pad(pos)

Aligned == \A pos \in 0..MaxPos : DataOffset(pos) % A = 0 /\ Pad(pos) \in 1..A /\ ReaderOffset(pos) = DataOffset(pos)

HasObject(d) == d = "object"
Wrapped(cls) == cls \in {"ndarray", "matrix"}
MayMemmap(d, comp, mode, cls) == comp = "none" /\ ~HasObject(d) /\ mode # "None" /\ Wrapped(cls)
Records == {"record", "mixed_endian_record", "packed5"}
\* which (class, dtype, shape, layout) combinations exist at all
ClassOK(cls, d, sh, lay) ==
  \/ cls = "ndarray"
  \/ /\ lay = "C"
     /\ CASE cls = "matrix" -> sh \in {"mat", "bigmat", "empty2d"}
          [] cls = "recarray" -> d \in Records
          [] cls = "masked" -> ~HasObject(d)
          [] OTHER -> TRUE

VARIABLES d, sh, lay, comp, mode, cont, cls
vars == <<d, sh, lay, comp, mode, cont, cls>>
Init == d \in DTypes /\ sh \in Shapes /\ lay \in Layouts /\ comp \in Compressors /\ mode \in MmapModes /\ cont \in Containers /\ cls \in Classes
Next == UNCHANGED vars
\* memory maps are only asked for on uncompressed files in the enumeration of interest
Interesting == (mode # "None" => comp \in {"none", "zlib"}) /\ (lay = "memmap" => d # "object") /\ ClassOK(cls, d, sh, lay)
               /\ (cls # "ndarray" => cont # "dict")
Emit == Interesting => PrintT(ToJson([dtype |-> d, shape |-> sh, layout |-> lay, compress |-> comp, mmap_mode |-> mode, container |-> cont, class |-> cls,
                                      memmap |-> MayMemmap(d, comp, mode, cls)]))
=============================================================================
