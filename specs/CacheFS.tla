------------------------------- MODULE CacheFS -------------------------------
(* File-system level model of joblib.Memory for ONE function directory (C05, C11). *)
(* Each label is one file-system call (the grain the LD_PRELOAD shim sees).    *)
EXTENDS Integers, Sequences, FiniteSets, TLC, Json

CONSTANTS
  Procs,       \* e.g. {1, 2}
  Op,          \* [Procs -> {"call", "reduce", "clearfunc"}]
  Ver,         \* [Procs -> code version of the function object the process holds]
  Key,         \* [Procs -> "a" | "b"]
  Keys,        \* {"a", "b"}
  CrashProc,   \* a process that may crash at any step, or 0
  Sequential,  \* TRUE: process i+1 starts only after process i stopped (crash/recovery runs)
  KnownKinds,  \* exception kinds / "stale" already recorded as findings (to look for further ones)
  Validate,    \* TRUE: a cache_validation_callback that needs metadata["time"] is configured
  FixD5a,      \* repairs (TRUE = current tree): entry without readable metadata is cleared and recomputed
  FixD5b,      \*   unreadable stored source is treated as missing
  FixD10,      \*   a concurrent clear while storing the source is tolerated
  FixD5c,      \*   results found next to a missing/unreadable source are wiped (clear) instead of kept
  WarmKeys     \* keys with a complete version-1 entry in the initial directory (InitW)

\* paths of the function directory
F        == <<"F">>
Code     == <<"F", "code">>
E(k)     == <<"F", k>>
Out(k)   == <<"F", k, "out">>
Meta(k)  == <<"F", k, "metaf">>
\* temporary files are ordinary children of the entry directory (a clear or an eviction listing it sees and removes them)
TmpO(k,p) == <<"F", k, "tmpo" \o ToString(p)>>
TmpM(k,p) == <<"F", k, "tmpm" \o ToString(p)>>

Parent(path) == SubSeq(path, 1, Len(path) - 1)
IsDirPath(path) == path = F \/ (Len(path) = 2 /\ path[2] \in Keys)

(* --algorithm CacheFS {
variables
  ex = {},                               \* existing paths
  ct = [x \in {} |-> <<"none">>],            \* content of existing files
  res = [p \in Procs |-> <<"none">>],    \* outcome of each process
  crashed = {},
  stopped = {};

define {
  Children(d) == {x \in ex : Len(x) = Len(d) + 1 /\ SubSeq(x, 1, Len(d)) = d}
  Has(x) == x \in ex
  Content(x) == IF x \in DOMAIN ct THEN ct[x] ELSE <<"none">>
  MayStart(p) == ~Sequential \/ \A q \in Procs : q < p => q \in stopped
}

macro SetFile(x, c) { ct := [y \in (DOMAIN ct) \cup {x} |-> IF y = x THEN c ELSE ct[y]]; }

process (proc \in Procs)
variables
  snap = {}, sub = {}, cur = <<>>, val = <<"none">>, inmem = FALSE, codeSeen = <<"none">>,
  needCompute = FALSE, dumpOk = TRUE, hit = FALSE;
{
begin:
  await MayStart(self);
  if (Op[self] = "reduce") { goto red_scan; }
  else if (Op[self] = "clearfunc") { goto clr_begin; };

\* ---- MemorizedFunc.__init__: store_cached_func_code([func_id]) creates the dir
init_mk:
  if (~Has(F)) { ex := ex \cup {F}; };

\* ---- _check_previous_func_code
chk_read:
  if (inmem) { goto lookup; }
  else if (~Has(Code)) { codeSeen := <<"enoent">>; if (FixD5c) { goto clr_begin; } else { goto wr_mkdir; }; }
  else { codeSeen := Content(Code); };
chk_cmp:
  if (codeSeen = <<"code", Ver[self]>>) { goto lookup; }
  else if (codeSeen[1] = "partial" /\ ~FixD5b) {
     \* torn "# first line:" header => int('') raises ValueError, not caught (before fix D5b)
     res[self] := <<"exc", <<"ValueError-first-line">>>>; goto finished; }
  else if (codeSeen[1] = "partial") { if (FixD5c) { goto clr_begin; } else { goto wr_mkdir; }; }
  else { goto clr_begin; };

\* ---- MemorizedFunc.clear(): rmtree(func dir, ignore_errors) then _write_func_code
clr_begin:
  if (Has(F)) { snap := Children(F); } else { snap := {}; };
clr_loop:
  while (snap # {}) {
     with (c \in snap) { cur := c; snap := snap \ {c}; };
     if (IsDirPath(cur)) {
        if (Has(cur)) { sub := Children(cur); } else { sub := {}; };
clr_sub:
        while (sub # {}) {
           with (f \in sub) { ex := ex \ {f}; sub := sub \ {f}; };
        };
clr_rmdir_sub:
        if (Has(cur) /\ Children(cur) = {}) { ex := ex \ {cur}; };
     } else {
clr_unlink:
        ex := ex \ {cur};
     };
  };
clr_rmdir:
  if (Has(F) /\ Children(F) = {}) { ex := ex \ {F}; };
  if (Op[self] = "clearfunc") { needCompute := FALSE; } else { needCompute := TRUE; };

\* ---- _write_func_code -> store_cached_func_code
wr_mkdir:
  if (~Has(F)) { ex := ex \cup {F}; };
wr_open:
  if (~Has(F) /\ ~FixD10) { res[self] := <<"exc", <<"FileNotFoundError-func_code">>>>; goto finished; }
  else if (Has(F)) { ex := ex \cup {Code}; SetFile(Code, <<"empty">>); };
wr_write:
  \* a torn write is modelled by the crash landing between wr_open and wr_write (<<"empty">>)
  \* or by the explicit Tear action below (<<"partial">>)
  if (Has(Code)) { SetFile(Code, <<"code", Ver[self]>>); };
  inmem := TRUE;
  if (Op[self] = "clearfunc") { res[self] := <<"ok", <<"cleared">>>>; goto finished; }
  else { goto compute; };

\* ---- contains_item / get_metadata / callback / load_item
lookup:
  if (~Has(Out(Key[self]))) { goto compute; };
meta:
  if (Validate /\ ~(Has(Meta(Key[self])) /\ Content(Meta(Key[self]))[1] = "meta")) {
     \* get_metadata swallowed the error and returned {}; expires_after does metadata["time"]
     if (~FixD5a) { res[self] := <<"exc", <<"KeyError-time">>>>; goto finished; }
     else {
        \* fix D5a: clear_item (rmtree of the entry directory), then recompute
        if (Has(E(Key[self]))) { sub := Children(E(Key[self])); } else { sub := {}; };
ci_sub:
        while (sub # {}) {
           with (f \in sub) { ex := ex \ {f}; sub := sub \ {f}; };
        };
ci_rmdir:
        if (Has(E(Key[self])) /\ Children(E(Key[self])) = {}) { ex := ex \ {E(Key[self])}; };
        goto compute;
     };
  };
load_exists:
  if (~Has(Out(Key[self]))) { goto compute; };     \* KeyError caught -> recompute
load_read:
  if (Has(Out(Key[self])) /\ Content(Out(Key[self]))[1] = "val") {
     res[self] := <<"ok", Content(Out(Key[self]))>>; hit := TRUE; goto finished; }
  else { goto compute; };                          \* any load error -> warn, recompute

\* ---- _call: compute, dump_item, store_metadata
compute:
  val := <<"val", Ver[self], Key[self]>>; dumpOk := TRUE;
d_mk1:
  if (~Has(E(Key[self])) /\ ~Has(F)) { ex := ex \cup {F}; };
d_mk2:
  if (~Has(E(Key[self]))) {
     if (Has(F)) { ex := ex \cup {E(Key[self])}; } else { dumpOk := FALSE; } };
d_open:
  if (dumpOk /\ Has(E(Key[self]))) { ex := ex \cup {TmpO(Key[self], self)}; SetFile(TmpO(Key[self], self), <<"partial">>); }
  else { dumpOk := FALSE; };
d_write:
  if (dumpOk /\ Has(TmpO(Key[self], self))) { SetFile(TmpO(Key[self], self), val); };
d_rename:
  if (dumpOk /\ Has(TmpO(Key[self], self)) /\ Has(E(Key[self]))) {
     ex := (ex \ {TmpO(Key[self], self)}) \cup {Out(Key[self])};
     SetFile(Out(Key[self]), Content(TmpO(Key[self], self))); };
m_mk1:
  if (~Has(E(Key[self])) /\ ~Has(F)) { ex := ex \cup {F}; };
m_mk2:
  if (~Has(E(Key[self])) /\ Has(F)) { ex := ex \cup {E(Key[self])}; };
m_open:
  if (Has(E(Key[self]))) { ex := ex \cup {TmpM(Key[self], self)}; SetFile(TmpM(Key[self], self), <<"partial">>); };
m_write:
  if (Has(TmpM(Key[self], self))) { SetFile(TmpM(Key[self], self), <<"meta">>); };
m_rename:
  if (Has(TmpM(Key[self], self)) /\ Has(E(Key[self]))) {
     ex := (ex \ {TmpM(Key[self], self)}) \cup {Meta(Key[self])};
     SetFile(Meta(Key[self]), Content(TmpM(Key[self], self))); };
  res[self] := <<"ok", val>>;
  goto finished;

\* ---- Memory.reduce_size(items_limit=0): evict every entry found by the scan
red_scan:
  snap := {E(k) : k \in {k2 \in Keys : Has(E(k2))}};
red_loop:
  while (snap # {}) {
     with (c \in snap) { cur := c; snap := snap \ {c}; };
     if (Has(cur)) { sub := Children(cur); } else { sub := {}; };
red_sub:
     while (sub # {}) {
        with (f \in sub) { ex := ex \ {f}; sub := sub \ {f}; };
     };
red_rmdir:
     if (Has(cur) /\ Children(cur) = {}) { ex := ex \ {cur}; };
  };
  res[self] := <<"ok", <<"reduced">>>>;

finished:
  stopped := stopped \cup {self};
}
} *)
\* BEGIN TRANSLATION
VARIABLES pc, ex, ct, res, crashed, stopped

(* define statement *)
Children(d) == {x \in ex : Len(x) = Len(d) + 1 /\ SubSeq(x, 1, Len(d)) = d}
Has(x) == x \in ex
Content(x) == IF x \in DOMAIN ct THEN ct[x] ELSE <<"none">>
MayStart(p) == ~Sequential \/ \A q \in Procs : q < p => q \in stopped

VARIABLES snap, sub, cur, val, inmem, codeSeen, needCompute, dumpOk, hit

vars == << pc, ex, ct, res, crashed, stopped, snap, sub, cur, val, inmem, 
           codeSeen, needCompute, dumpOk, hit >>

ProcSet == (Procs)

Init == (* Global variables *)
        /\ ex = {}
        /\ ct = [x \in {} |-> <<"none">>]
        /\ res = [p \in Procs |-> <<"none">>]
        /\ crashed = {}
        /\ stopped = {}
        (* Process proc *)
        /\ snap = [self \in Procs |-> {}]
        /\ sub = [self \in Procs |-> {}]
        /\ cur = [self \in Procs |-> <<>>]
        /\ val = [self \in Procs |-> <<"none">>]
        /\ inmem = [self \in Procs |-> FALSE]
        /\ codeSeen = [self \in Procs |-> <<"none">>]
        /\ needCompute = [self \in Procs |-> FALSE]
        /\ dumpOk = [self \in Procs |-> TRUE]
        /\ hit = [self \in Procs |-> FALSE]
        /\ pc = [self \in ProcSet |-> "begin"]

begin(self) == /\ pc[self] = "begin"
               /\ MayStart(self)
               /\ IF Op[self] = "reduce"
                     THEN /\ pc' = [pc EXCEPT ![self] = "red_scan"]
                     ELSE /\ IF Op[self] = "clearfunc"
                                THEN /\ pc' = [pc EXCEPT ![self] = "clr_begin"]
                                ELSE /\ pc' = [pc EXCEPT ![self] = "init_mk"]
               /\ UNCHANGED << ex, ct, res, crashed, stopped, snap, sub, cur, 
                               val, inmem, codeSeen, needCompute, dumpOk, hit >>

init_mk(self) == /\ pc[self] = "init_mk"
                 /\ IF ~Has(F)
                       THEN /\ ex' = (ex \cup {F})
                       ELSE /\ TRUE
                            /\ ex' = ex
                 /\ pc' = [pc EXCEPT ![self] = "chk_read"]
                 /\ UNCHANGED << ct, res, crashed, stopped, snap, sub, cur, 
                                 val, inmem, codeSeen, needCompute, dumpOk, 
                                 hit >>

chk_read(self) == /\ pc[self] = "chk_read"
                  /\ IF inmem[self]
                        THEN /\ pc' = [pc EXCEPT ![self] = "lookup"]
                             /\ UNCHANGED codeSeen
                        ELSE /\ IF ~Has(Code)
                                   THEN /\ codeSeen' = [codeSeen EXCEPT ![self] = <<"enoent">>]
                                        /\ IF FixD5c
                                              THEN /\ pc' = [pc EXCEPT ![self] = "clr_begin"]
                                              ELSE /\ pc' = [pc EXCEPT ![self] = "wr_mkdir"]
                                   ELSE /\ codeSeen' = [codeSeen EXCEPT ![self] = Content(Code)]
                                        /\ pc' = [pc EXCEPT ![self] = "chk_cmp"]
                  /\ UNCHANGED << ex, ct, res, crashed, stopped, snap, sub, 
                                  cur, val, inmem, needCompute, dumpOk, hit >>

chk_cmp(self) == /\ pc[self] = "chk_cmp"
                 /\ IF codeSeen[self] = <<"code", Ver[self]>>
                       THEN /\ pc' = [pc EXCEPT ![self] = "lookup"]
                            /\ res' = res
                       ELSE /\ IF codeSeen[self][1] = "partial" /\ ~FixD5b
                                  THEN /\ res' = [res EXCEPT ![self] = <<"exc", <<"ValueError-first-line">>>>]
                                       /\ pc' = [pc EXCEPT ![self] = "finished"]
                                  ELSE /\ IF codeSeen[self][1] = "partial"
                                             THEN /\ IF FixD5c
                                                        THEN /\ pc' = [pc EXCEPT ![self] = "clr_begin"]
                                                        ELSE /\ pc' = [pc EXCEPT ![self] = "wr_mkdir"]
                                             ELSE /\ pc' = [pc EXCEPT ![self] = "clr_begin"]
                                       /\ res' = res
                 /\ UNCHANGED << ex, ct, crashed, stopped, snap, sub, cur, val, 
                                 inmem, codeSeen, needCompute, dumpOk, hit >>

clr_begin(self) == /\ pc[self] = "clr_begin"
                   /\ IF Has(F)
                         THEN /\ snap' = [snap EXCEPT ![self] = Children(F)]
                         ELSE /\ snap' = [snap EXCEPT ![self] = {}]
                   /\ pc' = [pc EXCEPT ![self] = "clr_loop"]
                   /\ UNCHANGED << ex, ct, res, crashed, stopped, sub, cur, 
                                   val, inmem, codeSeen, needCompute, dumpOk, 
                                   hit >>

clr_loop(self) == /\ pc[self] = "clr_loop"
                  /\ IF snap[self] # {}
                        THEN /\ \E c \in snap[self]:
                                  /\ cur' = [cur EXCEPT ![self] = c]
                                  /\ snap' = [snap EXCEPT ![self] = snap[self] \ {c}]
                             /\ IF IsDirPath(cur'[self])
                                   THEN /\ IF Has(cur'[self])
                                              THEN /\ sub' = [sub EXCEPT ![self] = Children(cur'[self])]
                                              ELSE /\ sub' = [sub EXCEPT ![self] = {}]
                                        /\ pc' = [pc EXCEPT ![self] = "clr_sub"]
                                   ELSE /\ pc' = [pc EXCEPT ![self] = "clr_unlink"]
                                        /\ sub' = sub
                        ELSE /\ pc' = [pc EXCEPT ![self] = "clr_rmdir"]
                             /\ UNCHANGED << snap, sub, cur >>
                  /\ UNCHANGED << ex, ct, res, crashed, stopped, val, inmem, 
                                  codeSeen, needCompute, dumpOk, hit >>

clr_sub(self) == /\ pc[self] = "clr_sub"
                 /\ IF sub[self] # {}
                       THEN /\ \E f \in sub[self]:
                                 /\ ex' = ex \ {f}
                                 /\ sub' = [sub EXCEPT ![self] = sub[self] \ {f}]
                            /\ pc' = [pc EXCEPT ![self] = "clr_sub"]
                       ELSE /\ pc' = [pc EXCEPT ![self] = "clr_rmdir_sub"]
                            /\ UNCHANGED << ex, sub >>
                 /\ UNCHANGED << ct, res, crashed, stopped, snap, cur, val, 
                                 inmem, codeSeen, needCompute, dumpOk, hit >>

clr_rmdir_sub(self) == /\ pc[self] = "clr_rmdir_sub"
                       /\ IF Has(cur[self]) /\ Children(cur[self]) = {}
                             THEN /\ ex' = ex \ {cur[self]}
                             ELSE /\ TRUE
                                  /\ ex' = ex
                       /\ pc' = [pc EXCEPT ![self] = "clr_loop"]
                       /\ UNCHANGED << ct, res, crashed, stopped, snap, sub, 
                                       cur, val, inmem, codeSeen, needCompute, 
                                       dumpOk, hit >>

clr_unlink(self) == /\ pc[self] = "clr_unlink"
                    /\ ex' = ex \ {cur[self]}
                    /\ pc' = [pc EXCEPT ![self] = "clr_loop"]
                    /\ UNCHANGED << ct, res, crashed, stopped, snap, sub, cur, 
                                    val, inmem, codeSeen, needCompute, dumpOk, 
                                    hit >>

clr_rmdir(self) == /\ pc[self] = "clr_rmdir"
                   /\ IF Has(F) /\ Children(F) = {}
                         THEN /\ ex' = ex \ {F}
                         ELSE /\ TRUE
                              /\ ex' = ex
                   /\ IF Op[self] = "clearfunc"
                         THEN /\ needCompute' = [needCompute EXCEPT ![self] = FALSE]
                         ELSE /\ needCompute' = [needCompute EXCEPT ![self] = TRUE]
                   /\ pc' = [pc EXCEPT ![self] = "wr_mkdir"]
                   /\ UNCHANGED << ct, res, crashed, stopped, snap, sub, cur, 
                                   val, inmem, codeSeen, dumpOk, hit >>

wr_mkdir(self) == /\ pc[self] = "wr_mkdir"
                  /\ IF ~Has(F)
                        THEN /\ ex' = (ex \cup {F})
                        ELSE /\ TRUE
                             /\ ex' = ex
                  /\ pc' = [pc EXCEPT ![self] = "wr_open"]
                  /\ UNCHANGED << ct, res, crashed, stopped, snap, sub, cur, 
                                  val, inmem, codeSeen, needCompute, dumpOk, 
                                  hit >>

wr_open(self) == /\ pc[self] = "wr_open"
                 /\ IF ~Has(F) /\ ~FixD10
                       THEN /\ res' = [res EXCEPT ![self] = <<"exc", <<"FileNotFoundError-func_code">>>>]
                            /\ pc' = [pc EXCEPT ![self] = "finished"]
                            /\ UNCHANGED << ex, ct >>
                       ELSE /\ IF Has(F)
                                  THEN /\ ex' = (ex \cup {Code})
                                       /\ ct' = [y \in (DOMAIN ct) \cup {Code} |-> IF y = Code THEN (<<"empty">>) ELSE ct[y]]
                                  ELSE /\ TRUE
                                       /\ UNCHANGED << ex, ct >>
                            /\ pc' = [pc EXCEPT ![self] = "wr_write"]
                            /\ res' = res
                 /\ UNCHANGED << crashed, stopped, snap, sub, cur, val, inmem, 
                                 codeSeen, needCompute, dumpOk, hit >>

wr_write(self) == /\ pc[self] = "wr_write"
                  /\ IF Has(Code)
                        THEN /\ ct' = [y \in (DOMAIN ct) \cup {Code} |-> IF y = Code THEN (<<"code", Ver[self]>>) ELSE ct[y]]
                        ELSE /\ TRUE
                             /\ ct' = ct
                  /\ inmem' = [inmem EXCEPT ![self] = TRUE]
                  /\ IF Op[self] = "clearfunc"
                        THEN /\ res' = [res EXCEPT ![self] = <<"ok", <<"cleared">>>>]
                             /\ pc' = [pc EXCEPT ![self] = "finished"]
                        ELSE /\ pc' = [pc EXCEPT ![self] = "compute"]
                             /\ res' = res
                  /\ UNCHANGED << ex, crashed, stopped, snap, sub, cur, val, 
                                  codeSeen, needCompute, dumpOk, hit >>

lookup(self) == /\ pc[self] = "lookup"
                /\ IF ~Has(Out(Key[self]))
                      THEN /\ pc' = [pc EXCEPT ![self] = "compute"]
                      ELSE /\ pc' = [pc EXCEPT ![self] = "meta"]
                /\ UNCHANGED << ex, ct, res, crashed, stopped, snap, sub, cur, 
                                val, inmem, codeSeen, needCompute, dumpOk, hit >>

meta(self) == /\ pc[self] = "meta"
              /\ IF Validate /\ ~(Has(Meta(Key[self])) /\ Content(Meta(Key[self]))[1] = "meta")
                    THEN /\ IF ~FixD5a
                               THEN /\ res' = [res EXCEPT ![self] = <<"exc", <<"KeyError-time">>>>]
                                    /\ pc' = [pc EXCEPT ![self] = "finished"]
                                    /\ sub' = sub
                               ELSE /\ IF Has(E(Key[self]))
                                          THEN /\ sub' = [sub EXCEPT ![self] = Children(E(Key[self]))]
                                          ELSE /\ sub' = [sub EXCEPT ![self] = {}]
                                    /\ pc' = [pc EXCEPT ![self] = "ci_sub"]
                                    /\ res' = res
                    ELSE /\ pc' = [pc EXCEPT ![self] = "load_exists"]
                         /\ UNCHANGED << res, sub >>
              /\ UNCHANGED << ex, ct, crashed, stopped, snap, cur, val, inmem, 
                              codeSeen, needCompute, dumpOk, hit >>

ci_sub(self) == /\ pc[self] = "ci_sub"
                /\ IF sub[self] # {}
                      THEN /\ \E f \in sub[self]:
                                /\ ex' = ex \ {f}
                                /\ sub' = [sub EXCEPT ![self] = sub[self] \ {f}]
                           /\ pc' = [pc EXCEPT ![self] = "ci_sub"]
                      ELSE /\ pc' = [pc EXCEPT ![self] = "ci_rmdir"]
                           /\ UNCHANGED << ex, sub >>
                /\ UNCHANGED << ct, res, crashed, stopped, snap, cur, val, 
                                inmem, codeSeen, needCompute, dumpOk, hit >>

ci_rmdir(self) == /\ pc[self] = "ci_rmdir"
                  /\ IF Has(E(Key[self])) /\ Children(E(Key[self])) = {}
                        THEN /\ ex' = ex \ {E(Key[self])}
                        ELSE /\ TRUE
                             /\ ex' = ex
                  /\ pc' = [pc EXCEPT ![self] = "compute"]
                  /\ UNCHANGED << ct, res, crashed, stopped, snap, sub, cur, 
                                  val, inmem, codeSeen, needCompute, dumpOk, 
                                  hit >>

load_exists(self) == /\ pc[self] = "load_exists"
                     /\ IF ~Has(Out(Key[self]))
                           THEN /\ pc' = [pc EXCEPT ![self] = "compute"]
                           ELSE /\ pc' = [pc EXCEPT ![self] = "load_read"]
                     /\ UNCHANGED << ex, ct, res, crashed, stopped, snap, sub, 
                                     cur, val, inmem, codeSeen, needCompute, 
                                     dumpOk, hit >>

load_read(self) == /\ pc[self] = "load_read"
                   /\ IF Has(Out(Key[self])) /\ Content(Out(Key[self]))[1] = "val"
                         THEN /\ res' = [res EXCEPT ![self] = <<"ok", Content(Out(Key[self]))>>]
                              /\ hit' = [hit EXCEPT ![self] = TRUE]
                              /\ pc' = [pc EXCEPT ![self] = "finished"]
                         ELSE /\ pc' = [pc EXCEPT ![self] = "compute"]
                              /\ UNCHANGED << res, hit >>
                   /\ UNCHANGED << ex, ct, crashed, stopped, snap, sub, cur, 
                                   val, inmem, codeSeen, needCompute, dumpOk >>

compute(self) == /\ pc[self] = "compute"
                 /\ val' = [val EXCEPT ![self] = <<"val", Ver[self], Key[self]>>]
                 /\ dumpOk' = [dumpOk EXCEPT ![self] = TRUE]
                 /\ pc' = [pc EXCEPT ![self] = "d_mk1"]
                 /\ UNCHANGED << ex, ct, res, crashed, stopped, snap, sub, cur, 
                                 inmem, codeSeen, needCompute, hit >>

d_mk1(self) == /\ pc[self] = "d_mk1"
               /\ IF ~Has(E(Key[self])) /\ ~Has(F)
                     THEN /\ ex' = (ex \cup {F})
                     ELSE /\ TRUE
                          /\ ex' = ex
               /\ pc' = [pc EXCEPT ![self] = "d_mk2"]
               /\ UNCHANGED << ct, res, crashed, stopped, snap, sub, cur, val, 
                               inmem, codeSeen, needCompute, dumpOk, hit >>

d_mk2(self) == /\ pc[self] = "d_mk2"
               /\ IF ~Has(E(Key[self]))
                     THEN /\ IF Has(F)
                                THEN /\ ex' = (ex \cup {E(Key[self])})
                                     /\ UNCHANGED dumpOk
                                ELSE /\ dumpOk' = [dumpOk EXCEPT ![self] = FALSE]
                                     /\ ex' = ex
                     ELSE /\ TRUE
                          /\ UNCHANGED << ex, dumpOk >>
               /\ pc' = [pc EXCEPT ![self] = "d_open"]
               /\ UNCHANGED << ct, res, crashed, stopped, snap, sub, cur, val, 
                               inmem, codeSeen, needCompute, hit >>

d_open(self) == /\ pc[self] = "d_open"
                /\ IF dumpOk[self] /\ Has(E(Key[self]))
                      THEN /\ ex' = (ex \cup {TmpO(Key[self], self)})
                           /\ ct' = [y \in (DOMAIN ct) \cup {(TmpO(Key[self], self))} |-> IF y = (TmpO(Key[self], self)) THEN (<<"partial">>) ELSE ct[y]]
                           /\ UNCHANGED dumpOk
                      ELSE /\ dumpOk' = [dumpOk EXCEPT ![self] = FALSE]
                           /\ UNCHANGED << ex, ct >>
                /\ pc' = [pc EXCEPT ![self] = "d_write"]
                /\ UNCHANGED << res, crashed, stopped, snap, sub, cur, val, 
                                inmem, codeSeen, needCompute, hit >>

d_write(self) == /\ pc[self] = "d_write"
                 /\ IF dumpOk[self] /\ Has(TmpO(Key[self], self))
                       THEN /\ ct' = [y \in (DOMAIN ct) \cup {(TmpO(Key[self], self))} |-> IF y = (TmpO(Key[self], self)) THEN val[self] ELSE ct[y]]
                       ELSE /\ TRUE
                            /\ ct' = ct
                 /\ pc' = [pc EXCEPT ![self] = "d_rename"]
                 /\ UNCHANGED << ex, res, crashed, stopped, snap, sub, cur, 
                                 val, inmem, codeSeen, needCompute, dumpOk, 
                                 hit >>

d_rename(self) == /\ pc[self] = "d_rename"
                  /\ IF dumpOk[self] /\ Has(TmpO(Key[self], self)) /\ Has(E(Key[self]))
                        THEN /\ ex' = ((ex \ {TmpO(Key[self], self)}) \cup {Out(Key[self])})
                             /\ ct' = [y \in (DOMAIN ct) \cup {(Out(Key[self]))} |-> IF y = (Out(Key[self])) THEN (Content(TmpO(Key[self], self))) ELSE ct[y]]
                        ELSE /\ TRUE
                             /\ UNCHANGED << ex, ct >>
                  /\ pc' = [pc EXCEPT ![self] = "m_mk1"]
                  /\ UNCHANGED << res, crashed, stopped, snap, sub, cur, val, 
                                  inmem, codeSeen, needCompute, dumpOk, hit >>

m_mk1(self) == /\ pc[self] = "m_mk1"
               /\ IF ~Has(E(Key[self])) /\ ~Has(F)
                     THEN /\ ex' = (ex \cup {F})
                     ELSE /\ TRUE
                          /\ ex' = ex
               /\ pc' = [pc EXCEPT ![self] = "m_mk2"]
               /\ UNCHANGED << ct, res, crashed, stopped, snap, sub, cur, val, 
                               inmem, codeSeen, needCompute, dumpOk, hit >>

m_mk2(self) == /\ pc[self] = "m_mk2"
               /\ IF ~Has(E(Key[self])) /\ Has(F)
                     THEN /\ ex' = (ex \cup {E(Key[self])})
                     ELSE /\ TRUE
                          /\ ex' = ex
               /\ pc' = [pc EXCEPT ![self] = "m_open"]
               /\ UNCHANGED << ct, res, crashed, stopped, snap, sub, cur, val, 
                               inmem, codeSeen, needCompute, dumpOk, hit >>

m_open(self) == /\ pc[self] = "m_open"
                /\ IF Has(E(Key[self]))
                      THEN /\ ex' = (ex \cup {TmpM(Key[self], self)})
                           /\ ct' = [y \in (DOMAIN ct) \cup {(TmpM(Key[self], self))} |-> IF y = (TmpM(Key[self], self)) THEN (<<"partial">>) ELSE ct[y]]
                      ELSE /\ TRUE
                           /\ UNCHANGED << ex, ct >>
                /\ pc' = [pc EXCEPT ![self] = "m_write"]
                /\ UNCHANGED << res, crashed, stopped, snap, sub, cur, val, 
                                inmem, codeSeen, needCompute, dumpOk, hit >>

m_write(self) == /\ pc[self] = "m_write"
                 /\ IF Has(TmpM(Key[self], self))
                       THEN /\ ct' = [y \in (DOMAIN ct) \cup {(TmpM(Key[self], self))} |-> IF y = (TmpM(Key[self], self)) THEN (<<"meta">>) ELSE ct[y]]
                       ELSE /\ TRUE
                            /\ ct' = ct
                 /\ pc' = [pc EXCEPT ![self] = "m_rename"]
                 /\ UNCHANGED << ex, res, crashed, stopped, snap, sub, cur, 
                                 val, inmem, codeSeen, needCompute, dumpOk, 
                                 hit >>

m_rename(self) == /\ pc[self] = "m_rename"
                  /\ IF Has(TmpM(Key[self], self)) /\ Has(E(Key[self]))
                        THEN /\ ex' = ((ex \ {TmpM(Key[self], self)}) \cup {Meta(Key[self])})
                             /\ ct' = [y \in (DOMAIN ct) \cup {(Meta(Key[self]))} |-> IF y = (Meta(Key[self])) THEN (Content(TmpM(Key[self], self))) ELSE ct[y]]
                        ELSE /\ TRUE
                             /\ UNCHANGED << ex, ct >>
                  /\ res' = [res EXCEPT ![self] = <<"ok", val[self]>>]
                  /\ pc' = [pc EXCEPT ![self] = "finished"]
                  /\ UNCHANGED << crashed, stopped, snap, sub, cur, val, inmem, 
                                  codeSeen, needCompute, dumpOk, hit >>

red_scan(self) == /\ pc[self] = "red_scan"
                  /\ snap' = [snap EXCEPT ![self] = {E(k) : k \in {k2 \in Keys : Has(E(k2))}}]
                  /\ pc' = [pc EXCEPT ![self] = "red_loop"]
                  /\ UNCHANGED << ex, ct, res, crashed, stopped, sub, cur, val, 
                                  inmem, codeSeen, needCompute, dumpOk, hit >>

red_loop(self) == /\ pc[self] = "red_loop"
                  /\ IF snap[self] # {}
                        THEN /\ \E c \in snap[self]:
                                  /\ cur' = [cur EXCEPT ![self] = c]
                                  /\ snap' = [snap EXCEPT ![self] = snap[self] \ {c}]
                             /\ IF Has(cur'[self])
                                   THEN /\ sub' = [sub EXCEPT ![self] = Children(cur'[self])]
                                   ELSE /\ sub' = [sub EXCEPT ![self] = {}]
                             /\ pc' = [pc EXCEPT ![self] = "red_sub"]
                             /\ res' = res
                        ELSE /\ res' = [res EXCEPT ![self] = <<"ok", <<"reduced">>>>]
                             /\ pc' = [pc EXCEPT ![self] = "finished"]
                             /\ UNCHANGED << snap, sub, cur >>
                  /\ UNCHANGED << ex, ct, crashed, stopped, val, inmem, 
                                  codeSeen, needCompute, dumpOk, hit >>

red_sub(self) == /\ pc[self] = "red_sub"
                 /\ IF sub[self] # {}
                       THEN /\ \E f \in sub[self]:
                                 /\ ex' = ex \ {f}
                                 /\ sub' = [sub EXCEPT ![self] = sub[self] \ {f}]
                            /\ pc' = [pc EXCEPT ![self] = "red_sub"]
                       ELSE /\ pc' = [pc EXCEPT ![self] = "red_rmdir"]
                            /\ UNCHANGED << ex, sub >>
                 /\ UNCHANGED << ct, res, crashed, stopped, snap, cur, val, 
                                 inmem, codeSeen, needCompute, dumpOk, hit >>

red_rmdir(self) == /\ pc[self] = "red_rmdir"
                   /\ IF Has(cur[self]) /\ Children(cur[self]) = {}
                         THEN /\ ex' = ex \ {cur[self]}
                         ELSE /\ TRUE
                              /\ ex' = ex
                   /\ pc' = [pc EXCEPT ![self] = "red_loop"]
                   /\ UNCHANGED << ct, res, crashed, stopped, snap, sub, cur, 
                                   val, inmem, codeSeen, needCompute, dumpOk, 
                                   hit >>

finished(self) == /\ pc[self] = "finished"
                  /\ stopped' = (stopped \cup {self})
                  /\ pc' = [pc EXCEPT ![self] = "Done"]
                  /\ UNCHANGED << ex, ct, res, crashed, snap, sub, cur, val, 
                                  inmem, codeSeen, needCompute, dumpOk, hit >>

proc(self) == begin(self) \/ init_mk(self) \/ chk_read(self)
                 \/ chk_cmp(self) \/ clr_begin(self) \/ clr_loop(self)
                 \/ clr_sub(self) \/ clr_rmdir_sub(self)
                 \/ clr_unlink(self) \/ clr_rmdir(self) \/ wr_mkdir(self)
                 \/ wr_open(self) \/ wr_write(self) \/ lookup(self)
                 \/ meta(self) \/ ci_sub(self) \/ ci_rmdir(self)
                 \/ load_exists(self) \/ load_read(self) \/ compute(self)
                 \/ d_mk1(self) \/ d_mk2(self) \/ d_open(self)
                 \/ d_write(self) \/ d_rename(self) \/ m_mk1(self)
                 \/ m_mk2(self) \/ m_open(self) \/ m_write(self)
                 \/ m_rename(self) \/ red_scan(self) \/ red_loop(self)
                 \/ red_sub(self) \/ red_rmdir(self) \/ finished(self)

(* Allow infinite stuttering to prevent deadlock on termination. *)
Terminating == /\ \A self \in ProcSet: pc[self] = "Done"
               /\ UNCHANGED vars

Next == (\E self \in Procs: proc(self))
           \/ Terminating

Spec == Init /\ [][Next]_vars

Termination == <>(\A self \in ProcSet: pc[self] = "Done")

\* END TRANSLATION 



\* A cache directory that already holds complete version-1 entries for WarmKeys (C11: evictions and clears
\* racing with warm calls).  WarmKeys = {} gives the cold directory of Init.
WarmEx == IF WarmKeys = {} THEN {} ELSE {F, Code} \cup UNION {{E(k), Out(k), Meta(k)} : k \in WarmKeys}
WarmCt == [x \in WarmEx \ ({F} \cup {E(k) : k \in WarmKeys}) |->
             IF x = Code THEN <<"code", 1>>
             ELSE IF x[3] = "out" THEN <<"val", 1, x[2]>> ELSE <<"meta">>]
InitW == (* Global variables *)
        /\ ex = WarmEx
        /\ ct = WarmCt
        /\ res = [p \in Procs |-> <<"none">>]
        /\ crashed = {}
        /\ stopped = {}
        (* Process proc *)
        /\ snap = [self \in Procs |-> {}]
        /\ sub = [self \in Procs |-> {}]
        /\ cur = [self \in Procs |-> <<>>]
        /\ val = [self \in Procs |-> <<"none">>]
        /\ inmem = [self \in Procs |-> FALSE]
        /\ codeSeen = [self \in Procs |-> <<"none">>]
        /\ needCompute = [self \in Procs |-> FALSE]
        /\ dumpOk = [self \in Procs |-> TRUE]
        /\ hit = [self \in Procs |-> FALSE]
        /\ pc = [self \in ProcSet |-> "begin"]

UnchangedLocals == UNCHANGED <<res, snap, sub, cur, val, inmem, codeSeen, needCompute, dumpOk, hit>>

Crash == /\ CrashProc \in Procs
         /\ pc[CrashProc] \notin {"Done", "begin", "finished"}
         /\ pc' = [pc EXCEPT ![CrashProc] = "Done"]
         /\ crashed' = crashed \cup {CrashProc}
         /\ stopped' = stopped \cup {CrashProc}
         /\ UNCHANGED <<ex, ct>> /\ UnchangedLocals

\* crash in the middle of the in-place write of func_code.py: a strict, non-empty prefix remains
CrashTorn == /\ CrashProc \in Procs
             /\ pc[CrashProc] = "wr_write" /\ Code \in ex
             /\ ct' = [ct EXCEPT ![Code] = <<"partial">>]
             /\ pc' = [pc EXCEPT ![CrashProc] = "Done"]
             /\ crashed' = crashed \cup {CrashProc}
             /\ stopped' = stopped \cup {CrashProc}
             /\ UNCHANGED ex /\ UnchangedLocals

Next2 == Next \/ Crash \/ CrashTorn
Spec2 == Init /\ [][Next2]_vars

\* crash-state conformance (C05): every file-system state the model can be left in by a crash, printed for comparison with
\* the snapshots of the real cache directory after a real kill at every file-system call
EmitCrash == (crashed # {}) => PrintT(ToJson([ex |-> ex, ct |-> {<<x, ct[x]>> : x \in DOMAIN ct \cap ex}]))

\* final-state conformance (C11): every file-system state the model can end in when all participants have finished
EmitFinal == (\A p \in Procs : p \in stopped) => PrintT(ToJson([ex |-> ex, ct |-> {<<x, ct[x]>> : x \in DOMAIN ct \cap ex}]))

\* step conformance (C11): the relation "directory state -> next directory state" over every transition of the model that changes
\* the directory (owners of temporary files dropped), accumulated in a TLC register and printed once at the end; every change of
\* the REAL directory between two consecutive file-system calls of a schedule must be in it (ACTION_CONSTRAINT StepRel,
\* POSTCONDITION PrintRel, one worker)
ASSUME TLCSet(7, {})
Strip(x) == IF Len(x) = 3 /\ x[3] \notin {"out", "metaf"}
            THEN <<x[1], x[2], IF \E p \in Procs : x[3] = "tmpo" \o ToString(p) THEN "tmpo" ELSE "tmpm">>
            ELSE x
Proj(e, c) == [ex |-> {Strip(x) : x \in e}, ct |-> {<<Strip(x), c[x]>> : x \in (DOMAIN c) \cap e}]
StepRel == IF Proj(ex, ct) # Proj(ex', ct') THEN TLCSet(7, TLCGet(7) \cup {<<Proj(ex, ct), Proj(ex', ct')>>}) ELSE TRUE
PrintRel == PrintT(ToJson(TLCGet(7)))

FinalNameComplete == \A k \in Keys : Out(k) \in ex => ct[Out(k)][1] # "partial"

CallsCorrectModulo ==
  \A p \in Procs : (p \in stopped /\ p \notin crashed /\ Op[p] = "call")
                     => \/ res[p] = <<"ok", <<"val", Ver[p], Key[p]>>>>
                        \/ (res[p][1] = "exc" /\ res[p][2][1] \in KnownKinds)
                        \/ (res[p][1] = "ok" /\ "stale" \in KnownKinds /\ res[p][2][1] = "val" /\ res[p][2][2] # Ver[p])

CallsCorrect ==
  \A p \in Procs : (p \in stopped /\ p \notin crashed /\ Op[p] = "call")
                     => res[p] = <<"ok", <<"val", Ver[p], Key[p]>>>>
=============================================================================
