------------------------------ MODULE ZlibFill ------------------------------
(* BinaryZlibFile._fill_buffer / _read_block against an abstract        *)
(* decompressor, for every shape of raw file. Termination is the property.     *)
EXTENDS Integers, Sequences, TLC
CONSTANTS Blocks,     \* number of raw blocks the valid stream occupies (>= 1)
          Cut,        \* number of blocks actually present (Cut < Blocks: truncated stream)
          Trailing,   \* number of raw blocks that follow the end-of-stream marker (0 = clean)
          Fixed       \* TRUE = repaired loop (eof => stop)

VARIABLES rawpos,     \* blocks consumed from the raw file
          eof,        \* decompressor reached the end-of-stream marker
          unused,     \* decompressor.unused_data is non-empty
          buffered,   \* self._buffer holds unread output
          want,       \* bytes still wanted by the caller of _read_block (abstract: 0..2 blocks)
          pc
vars == <<rawpos, eof, unused, buffered, want, pc>>

Present == IF Cut < Blocks THEN Cut ELSE Blocks + Trailing   \* raw blocks available in the file

Init == rawpos = 0 /\ eof = FALSE /\ unused = FALSE /\ buffered = FALSE /\ want \in 1..2 /\ pc = "loop"

\* while n_bytes > 0 and self._fill_buffer(): ...
LoopHead ==
  /\ pc = "loop"
  /\ IF want = 0 THEN pc' = "ret_data" ELSE pc' = "fill"
  /\ UNCHANGED <<rawpos, eof, unused, buffered, want>>

\* _fill_buffer: while self._buffer_offset == len(self._buffer): ...
Fill ==
  /\ pc = "fill"
  /\ IF buffered THEN pc' = "consume" /\ UNCHANGED <<rawpos, eof, unused, buffered>>
     ELSE IF Fixed /\ eof THEN pc' = "ret_eof" /\ UNCHANGED <<rawpos, eof, unused, buffered>>
     ELSE IF unused
          THEN \* rawblock = decompressor.unused_data ; decompress() on a finished stream returns b"" and keeps it unused
               /\ pc' = "fill" /\ UNCHANGED <<rawpos, eof, unused, buffered>>
          ELSE IF rawpos >= Present
               THEN pc' = "ret_eof" /\ UNCHANGED <<rawpos, eof, unused, buffered>>      \* raise EOFError -> clean EOF
               ELSE /\ rawpos' = rawpos + 1
                    /\ IF eof
                       THEN \* data after the end-of-stream marker goes to unused_data, no output
                            /\ unused' = TRUE /\ UNCHANGED <<eof, buffered>>
                       ELSE /\ eof' = (rawpos + 1 = Blocks)
                            \* a block may or may not produce output; the last one of a stream that is
                            \* followed by more raw bytes in the same 8 KiB read also fills unused_data
                            /\ buffered' \in BOOLEAN
                            /\ unused' = (rawpos + 1 = Blocks /\ Trailing > 0)
                    /\ pc' = "fill"
  /\ UNCHANGED want

Consume ==
  /\ pc = "consume" /\ buffered' = FALSE /\ want' = want - 1 /\ pc' = "loop"
  /\ UNCHANGED <<rawpos, eof, unused>>

Done == pc \in {"ret_data", "ret_eof"} /\ UNCHANGED vars

Next == LoopHead \/ Fill \/ Consume \/ Done
Spec == Init /\ [][Next]_vars /\ WF_vars(LoopHead \/ Fill \/ Consume)
Terminates == <>(pc \in {"ret_data", "ret_eof"})
=============================================================================
