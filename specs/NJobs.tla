-------------------------------- MODULE NJobs --------------------------------
(***************************************************************************)
(* n_jobs resolution and nesting (C15).                                    *)
(*   CpuCount(affinity, env, quota)  >= 1, honours the affinity mask,       *)
(*       LOKY_MAX_CPU_COUNT and the CPU quota of the control group          *)
(*   Effective(backend, n, cpus): n > 0 -> n ; n < 0 -> max(cpus+1+n, 1) ;  *)
(*       n = 0 -> ValueError ; sequential backend -> 1                      *)
(*   NestRun: Parallel calls nested inside workers: level 1 runs on         *)
(*       threads, deeper levels sequentially; no process is ever created    *)
(*       below level 0.                                                     *)
(* TLC enumerates the configurations with the dictated result (each becomes *)
(* a check of the real functions under a real affinity mask) and checks the *)
(* nesting machine.                                                         *)
(***************************************************************************)
EXTENDS Integers, Sequences, FiniteSets, TLC, Json

CONSTANTS OsCpus, Affinities, EnvVals, Backends, MaxDepth, Gen, QuotaHalves
\* EnvVals: values of LOKY_MAX_CPU_COUNT, 0 = unset
\* QuotaHalves: CPU bandwidth quota of the control group in HALF CPUs (cpu.max = quota / period), 0 = no quota; a fractional
\*              quota counts as the next whole CPU

Min2(a, b) == IF a < b THEN a ELSE b
Max2(a, b) == IF a > b THEN a ELSE b
Ceil2(q) == (q + 1) \div 2
CpuCount(aff, env, q) == Max2(1, Min2(Min2(aff, IF env = 0 THEN OsCpus ELSE env), IF q = 0 THEN OsCpus ELSE Ceil2(q)))
Effective(backend, n, cpus) ==
  IF n = 0 THEN <<"ValueError", 0>>
  ELSE IF backend = "sequential" THEN <<"ok", 1>>
  ELSE IF n > 0 THEN <<"ok", n>>
  ELSE <<"ok", Max2(cpus + 1 + n, 1)>>

\* ---- part 1: arithmetic table
VARIABLES aff, env, quota, backend, n, mode,
          \* ---- part 2: nesting machine.  path = backends chosen by the user at each level (outermost first)
          path, procs, threads
vars == <<aff, env, quota, backend, n, mode, path, procs, threads>>

Ns == (0 - 2 * OsCpus)..(2 * OsCpus)

\* kind of workers actually used at nesting level L (0 = outermost) when the user asks for backend b with n_jobs > 1:
\* the backend active inside a worker is the nested backend of the parent: threads at level 1, sequential below
Kind(L, b) == IF L = 0 THEN (IF b = "threading" THEN "threads" ELSE IF b = "sequential" THEN "none" ELSE "procs")
              ELSE IF L = 1 THEN "threads" ELSE "none"

InitTable == /\ mode = "table" /\ aff \in Affinities /\ env \in EnvVals /\ quota \in QuotaHalves /\ backend \in Backends /\ n \in Ns
             /\ (quota # 0 => n \in {-2, -1, 1, 2})          \* (the quota only enters through the CPU count)
             /\ path = <<>> /\ procs = 0 /\ threads = 0
InitNest  == /\ mode = "nest" /\ aff = OsCpus /\ env = 0 /\ quota = 0 /\ backend = "loky" /\ n = 2
             /\ path = <<>> /\ procs = 0 /\ threads = 0
Init == InitTable \/ InitNest

\* a task at the current depth calls Parallel(n_jobs = 2) with the DEFAULT backend selection (no explicit backend)
Nest(b) ==
  /\ mode = "nest" /\ Len(path) < MaxDepth
  /\ path' = Append(path, b)
  /\ procs' = procs + (IF Kind(Len(path), b) = "procs" THEN 1 ELSE 0)
  /\ threads' = threads + (IF Kind(Len(path), b) = "threads" THEN 1 ELSE 0)
  /\ UNCHANGED <<aff, env, quota, backend, n, mode>>
Next == \/ \E b \in Backends \ {"sequential"} : Nest(b)
        \/ UNCHANGED vars

\* only the outermost level may create processes
NoNestedProcesses == mode = "nest" => procs <= 1
CpuAtLeastOne == CpuCount(aff, env, quota) >= 1
EffectiveAtLeastOne == (mode = "table" /\ n # 0) => Effective(backend, n, CpuCount(aff, env, quota))[2] >= 1
Honours == /\ CpuCount(aff, env, quota) <= aff /\ (env # 0 => CpuCount(aff, env, quota) <= env)
           /\ (quota # 0 => 2 * CpuCount(aff, env, quota) <= quota + 1)

Emit == (Gen /\ mode = "table") =>
          PrintT(ToJson([aff |-> aff, env |-> env, quota |-> quota, backend |-> backend, n |-> n, cpus |-> CpuCount(aff, env, quota),
                         res |-> Effective(backend, n, CpuCount(aff, env, quota))]))
=============================================================================
