---------------------------- MODULE ParallelTrace ----------------------------
(***************************************************************************)
(* Batched trace validation of recorded executions of the real             *)
(* joblib.Parallel against ParallelAbs.  IOEnv.TRACE_FILE is a JSON array  *)
(* of traces (arrays of event records).  Every trace is an independent     *)
(* behaviour: TInit picks the trace id t; step l consumes event l.         *)
(* Registers (TLCSet/TLCGet, -workers 1):                                  *)
(*   t          highest line reached in trace t                            *)
(*   NT + t     clause that blocks the event after the deepest state       *)
(*   2 NT + t   1 if the D9 flag was ever set in trace t                   *)
(***************************************************************************)
EXTENDS ParallelAbs, Json, IOUtils, TLC, TLCExt
Traces == JsonDeserialize(IOEnv.TRACE_FILE)
NT == Len(Traces)
ASSUME \A i \in 1..NT : TLCSet(i, 0) /\ TLCSet(NT + i, "ok") /\ TLCSet(2 * NT + i, 0)
VARIABLES t, l
tvars == <<avars, t, l>>
TInit == AInit /\ t \in 1..NT /\ l = 1
TNext == /\ l <= Len(Traces[t])
         /\ Step(Traces[t][l])
         /\ l' = l + 1 /\ t' = t
TSpec == TInit /\ [][TNext]_tvars
Progress ==
  /\ IF TLCGet(t) < l
     THEN /\ TLCSet(t, l)
          /\ TLCSet(NT + t, IF l <= Len(Traces[t]) THEN Why(Traces[t][l]) ELSE "ok")
     ELSE TRUE
  /\ IF d9 THEN TLCSet(2 * NT + t, 1) ELSE TRUE
Accepted ==
  LET bad == {i \in 1..NT : TLCGet(i) # Len(Traces[i]) + 1}
      flg == {i \in 1..NT : TLCGet(2 * NT + i) = 1}
  IN /\ PrintT(<<"D9FLAGS", flg>>)
     /\ IF bad = {} THEN TRUE
        ELSE PrintT(<<"REJECTED", {<<i, TLCGet(i), TLCGet(NT + i)>> : i \in bad}>>) /\ FALSE
=============================================================================
