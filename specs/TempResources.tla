---------------------------- MODULE TempResources ----------------------------
(***************************************************************************)
(* The users of the resource tracker inside joblib (C20, third mechanism): *)
(* the temporary folder of a Parallel call with automatic memmapping.      *)
(*   parent  ArrayMemmapForwardReducer dumps a large argument into the     *)
(*           folder and REGISTERs the file (once per file);                *)
(*   worker  unpickling the memmap REGISTERs the file again and arms a     *)
(*           finaliser that sends MAYBE_UNLINK when the memmap is          *)
(*           collected;                                                    *)
(*   parent  after the call: TemporaryResourcesManager                     *)
(*           ._clean_temporary_resources: MAYBE_UNLINK for every file in   *)
(*           the folder, then delete_folder(allow_non_empty = FALSE)       *)
(*           (fails while files remain: the folder stays registered);      *)
(*           after a worker failure (force): UNREGISTER every file and     *)
(*           delete the folder with its content;                           *)
(*   exit    atexit finaliser: delete_folder(allow_non_empty = TRUE);      *)
(*   kill    nothing runs; the tracker deletes what is registered once     *)
(*           every client is gone.                                         *)
(* The tracker is the reference-counting registry of ResourceTracker.tla   *)
(* (abstracted to counts).  Checked:                                       *)
(*   InUseExists      a file a live worker has mapped and not yet released *)
(*                    exists, unless the parent forced the clean-up after  *)
(*                    a failure (the workers are being shut down then)     *)
(*   NothingLeft      when every process is gone the folder and its files  *)
(*                    are gone (liveness: eventually)                      *)
(*   CountsMatch      registry count of a file = parent's reference +      *)
(*                    number of workers holding it                         *)
(* Switch ParentRegisters = FALSE (sensitivity): a parent that does not    *)
(* register its dump lets the first worker release delete the file while   *)
(* another worker still needs it.                                          *)
(***************************************************************************)
EXTENDS Naturals, FiniteSets, TLC

CONSTANTS Files, Workers, ParentRegisters

VARIABLES disk,      \* files present in the folder
          folder,    \* folder exists
          reg,       \* [Files -> Nat]  tracker reference counts
          fReg,      \* folder registered with the tracker
          pref,      \* files the parent holds a reference to (dumped, not yet cleaned)
          held,      \* [Workers -> SUBSET Files] mapped and not yet released
          alive,     \* [Workers -> BOOLEAN]
          parent,    \* "running" | "cleaned" | "exited" | "killed"
          forced,    \* the forced clean-up ran
          tracker    \* tracker process alive
vars == <<disk, folder, reg, fReg, pref, held, alive, parent, forced, tracker>>

Init == /\ disk = {} /\ folder = FALSE /\ reg = [f \in Files |-> 0] /\ fReg = FALSE /\ pref = {}
        /\ held = [w \in Workers |-> {}] /\ alive = [w \in Workers |-> TRUE]
        /\ parent = "running" /\ forced = FALSE /\ tracker = TRUE

NoClients == parent \notin {"running", "cleaned"} /\ \A w \in Workers : ~alive[w]

\* tracker side of MAYBE_UNLINK (count 0 and unknown names are ignored)
Unlink(f) == IF reg[f] = 0 THEN UNCHANGED <<reg, disk>>
             ELSE /\ reg' = [reg EXCEPT ![f] = @ - 1]
                  /\ disk' = IF reg[f] = 1 THEN disk \ {f} ELSE disk

\* ---- parent
Dump(f) ==           \* first large argument: folder created and registered; the file is written and registered
  /\ parent = "running" /\ ~forced /\ f \notin disk /\ f \notin pref /\ tracker
  /\ folder' = TRUE /\ fReg' = TRUE
  /\ disk' = disk \cup {f} /\ pref' = pref \cup {f}
  /\ reg' = IF ParentRegisters THEN [reg EXCEPT ![f] = @ + 1] ELSE reg
  /\ UNCHANGED <<held, alive, parent, forced, tracker>>

\* _clean_temporary_resources(force = FALSE), one file at a time, then the folder
CleanFile(f) ==
  /\ parent = "running" /\ f \in pref /\ tracker
  /\ pref' = pref \ {f} /\ Unlink(f)
  /\ UNCHANGED <<folder, fReg, held, alive, parent, forced, tracker>>
CleanFolder ==
  /\ parent = "running" /\ pref = {} /\ folder
  /\ IF disk = {} THEN folder' = FALSE /\ fReg' = FALSE ELSE UNCHANGED <<folder, fReg>>     \* rmdir fails while files remain
  /\ parent' = "cleaned"
  /\ UNCHANGED <<disk, reg, pref, held, alive, forced, tracker>>

\* a worker died: the executor is shut down (every worker goes) and the clean-up is forced
ForceClean ==
  /\ parent = "running" /\ \E w \in Workers : ~alive[w]
  /\ alive' = [w \in Workers |-> FALSE] /\ held' = [w \in Workers |-> {}]
  /\ reg' = [f \in Files |-> 0] /\ disk' = {} /\ folder' = FALSE /\ fReg' = FALSE /\ pref' = {} /\ forced' = TRUE
  /\ UNCHANGED <<parent, tracker>>

ParentExit ==        \* interpreter shutdown: atexit finaliser deletes the folder with its content and unregisters it
  /\ parent \in {"running", "cleaned"}
  /\ parent' = "exited" /\ disk' = {} /\ folder' = FALSE /\ fReg' = FALSE /\ pref' = {}
  /\ alive' = [w \in Workers |-> FALSE] /\ held' = [w \in Workers |-> {}]        \* the executor is shut down at exit
  /\ UNCHANGED <<reg, forced, tracker>>
ParentKilled ==
  /\ parent \in {"running", "cleaned"} /\ parent' = "killed"
  /\ UNCHANGED <<disk, folder, reg, fReg, pref, held, alive, forced, tracker>>

\* ---- workers
Load(w, f) ==        \* unpickling the memmap in the worker
  /\ alive[w] /\ f \in disk /\ f \in pref /\ f \notin held[w] /\ tracker
  /\ held' = [held EXCEPT ![w] = @ \cup {f}] /\ reg' = [reg EXCEPT ![f] = @ + 1]
  /\ UNCHANGED <<disk, folder, fReg, pref, alive, parent, forced, tracker>>
Release(w, f) ==     \* the memmap is garbage collected
  /\ alive[w] /\ f \in held[w] /\ tracker
  /\ held' = [held EXCEPT ![w] = @ \ {f}] /\ Unlink(f)
  /\ UNCHANGED <<folder, fReg, pref, alive, parent, forced, tracker>>
Die(w) ==            \* killed, or orphaned worker reaching its idle timeout: finalisers do not run
  /\ alive[w] /\ alive' = [alive EXCEPT ![w] = FALSE] /\ held' = [held EXCEPT ![w] = {}]
  /\ UNCHANGED <<disk, folder, reg, fReg, pref, parent, forced, tracker>>

\* ---- tracker: every client gone -> delete what is registered (files first, then folders), exit
TrackerEOF ==
  /\ tracker /\ NoClients
  /\ tracker' = FALSE
  /\ disk' = IF fReg THEN {} ELSE {f \in disk : reg[f] = 0}
  /\ folder' = IF fReg THEN FALSE ELSE folder
  /\ reg' = [f \in Files |-> 0] /\ fReg' = FALSE
  /\ UNCHANGED <<pref, held, alive, parent, forced>>

Next == \/ CleanFolder \/ ForceClean \/ ParentExit \/ ParentKilled \/ TrackerEOF
        \/ \E f \in Files : Dump(f) \/ CleanFile(f)
        \/ \E w \in Workers : Die(w) \/ \E f \in Files : Load(w, f) \/ Release(w, f)
Spec == Init /\ [][Next]_vars /\ WF_vars(TrackerEOF)
        /\ WF_vars(ParentExit \/ ParentKilled) /\ \A w \in Workers : WF_vars(Die(w))

InUseExists == \A w \in Workers, f \in Files : (alive[w] /\ f \in held[w]) => f \in disk
CountsMatch == tracker => \A f \in Files : reg[f] = (IF f \in pref /\ ParentRegisters THEN 1 ELSE 0) + Cardinality({w \in Workers : f \in held[w]})
                                            \/ forced \/ parent \in {"exited", "killed"} \/ \E w \in Workers : ~alive[w]
NothingLeft == <>[](~tracker /\ ~folder /\ disk = {})
=============================================================================
