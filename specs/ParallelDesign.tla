---------------------------- MODULE ParallelDesign ----------------------------
(* Implementation-shaped model of joblib.Parallel's dispatch/retrieve protocol *)
(* (backends with supports_retrieve_callback = True): one action per critical  *)
(* section of parallel.py, unlocked reads as separate steps, the two halves of *)
(* a completion callback as two actions, a worker pool of NJ slots.            *)
(* The Fix* switches are TRUE for the current tree; setting one to FALSE models*)
(* the code before the corresponding `fix:` commit and TLC then produces the   *)
(* counterexample of that finding (D1, D7, D8, D12) - this is how the checks   *)
(* show that the model is able to see these defect classes.                    *)
EXTENDS Integers, Sequences, FiniteSets, TLC

CONSTANTS
  N,          \* tasks per call
  NJ,         \* effective n_jobs (>= 2)
  PRE,        \* pre_dispatch amount in tasks; 0 means 'all'
  BSizes,     \* set of batch sizes compute_batch_size may return (singleton = fixed)
  Fail,       \* set of failing task indices (0-based)
  IterFailAt, \* index of the item whose production raises, or N+1 for "never"
  FailCalls,  \* the calls (1..Calls) in which Fail / IterFailAt apply
  Mode,       \* "list" | "gen" | "unordered"
  Calls,      \* number of consecutive calls on the same object
  FixReady,   \* D1: ready queue reset per call
  FixD7,      \* D7: _dispatch_new re-checks the call id
  FixD8,      \* D8: registered error raised even when nothing is left to retrieve
  FixCallId,  \* D12: call id renewed in the same critical section that marks the object running
  SerialCb,   \* TRUE = callbacks are delivered by one thread (all built-in backends)
  AbortJoins  \* TRUE = terminate/abort joins callback threads (all built-in backends)

Min(a, b) == IF a < b THEN a ELSE b
Max(a, b) == IF a > b THEN a ELSE b

Ordered == Mode # "unordered"
IsGen   == Mode # "list"
All     == PRE = 0

VARIABLES
  call,      \* index of current call (1..Calls)
  callId,    \* Parallel._call_id (an integer here)
  itCall,    \* the call whose input iterable _original_iterator / the islice belongs to
  iterPos, preLeft, origNone,
  ready,     \* Seq of <<call, lo, hi>>
  jobs,      \* Seq of batch ids
  jobsSet,
  B,         \* batch id -> [c, lo, hi, status, st]   st = backend state
  nextB,
  nDisp, nDone, iterating, aborting, exc,
  running,
  cpc,       \* caller pc
  buf,       \* results of the batch being yielded: Seq of <<call, idx>>
  rem,       \* remaining outputs after finally
  want,      \* consumer request: "none" | "next" | "close"
  out,       \* Seq of <<call, idx>> yielded in the current call
  outcome,   \* outcome of current call
  executed,  \* function <<call, idx>> -> count
  cbpc       \* batch id -> "idle" | "registered" | "done"

vars == <<call, callId, itCall, iterPos, preLeft, origNone, ready, jobs, jobsSet, B, nextB, nDisp,
          nDone, iterating, aborting, exc, running, cpc, buf, rem, want, out,
          outcome, executed, cbpc>>

Ids == 1..(Calls * (N + 2))

Init ==
  /\ call = 0 /\ callId = 0 /\ itCall = 0 /\ iterPos = 0 /\ preLeft = 0 /\ origNone = TRUE
  /\ ready = <<>> /\ jobs = <<>> /\ jobsSet = {}
  /\ B = <<>> /\ nextB = 1
  /\ nDisp = 0 /\ nDone = 0 /\ iterating = FALSE /\ aborting = FALSE /\ exc = FALSE
  /\ running = FALSE /\ cpc = "idle" /\ buf = <<>> /\ rem = <<>> /\ want = "none"
  /\ out = <<>> /\ outcome = "none"
  /\ executed = [x \in {} |-> 0]
  /\ cbpc = <<>>

----------------------------------------------------------------------------
(* dispatch_one_batch, locked part, as a pure operator on a state record.  *)

Size(b) == b[3] - b[2]

\* s: [iterPos, preLeft, ready, jobs, jobsSet, B, nextB, nDisp, aborting, exc, cbpc]; returns [s, ret]
Dispatch(s, tasks) ==
  IF s.aborting THEN s
  ELSE LET id == s.nextB
           rec == [c |-> tasks[1], cid |-> callId, lo |-> tasks[2], hi |-> tasks[3],
                   status |-> "pending", st |-> "queued"]
       IN [s EXCEPT !.nDisp = @ + Size(tasks),
                    !.B = Append(@, rec),
                    !.cbpc = Append(@, "idle"),
                    !.nextB = @ + 1,
                    !.jobs = IF Ordered THEN Append(@, id) ELSE @,
                    !.jobsSet = IF Ordered THEN @ ELSE @ \cup {id}]

\* which: "pre" (caller's islice), "orig" (callbacks), "all" (pre_dispatch='all')
DOB(s, which, bs) ==
  IF s.ready # <<>>
  THEN [s |-> Dispatch([s EXCEPT !.ready = Tail(@)], Head(s.ready)), ret |-> TRUE]
  ELSE
    LET big   == bs * NJ
        left  == N - s.iterPos
        avail == IF which = "pre" THEN Min(s.preLeft, left) ELSE left
        k     == Min(big, avail)
        hitsFail == IterFailAt >= s.iterPos /\ IterFailAt < s.iterPos + big
                    /\ (which # "pre" \/ IterFailAt < s.iterPos + s.preLeft)
                    /\ IterFailAt <= N /\ itCall \in FailCalls
    IN
    IF hitsFail
    THEN \* iterator raised: pseudo job registered with an error outcome
      LET id == s.nextB
          rec == [c |-> itCall, cid |-> callId, lo |-> 0, hi |-> 0, status |-> "itererror", st |-> "none"]
      IN [s |-> [s EXCEPT !.iterPos = N, !.preLeft = 0,
                          !.B = Append(@, rec), !.cbpc = Append(@, "done"),
                          !.nextB = @ + 1,
                          !.jobs = Append(@, id),
                          !.jobsSet = IF Ordered THEN @ ELSE @ \cup {id},
                          !.aborting = TRUE, !.exc = TRUE],
          ret |-> TRUE]
    ELSE IF k = 0 THEN [s |-> s, ret |-> FALSE]
    ELSE
      LET final == IF which = "orig" /\ k < big
                   THEN Max(1, k \div (10 * NJ)) ELSE Max(1, k \div NJ)
          nb    == (k + final - 1) \div final
          newb  == [j \in 1..nb |-> <<itCall, s.iterPos + (j-1)*final,
                                       Min(s.iterPos + j*final, s.iterPos + k)>>]
          s2    == [s EXCEPT !.iterPos = @ + k,
                             !.preLeft = IF which = "pre" THEN @ - k ELSE @,
                             !.ready = Tail(newb)]
      IN [s |-> Dispatch(s2, Head(newb)), ret |-> TRUE]

Pack == [iterPos |-> iterPos, preLeft |-> preLeft, ready |-> ready, jobs |-> jobs,
         jobsSet |-> jobsSet, B |-> B, nextB |-> nextB, nDisp |-> nDisp,
         aborting |-> aborting, exc |-> exc, cbpc |-> cbpc]

Unpack(s) ==
  /\ iterPos' = s.iterPos /\ preLeft' = s.preLeft /\ ready' = s.ready
  /\ jobs' = s.jobs /\ jobsSet' = s.jobsSet /\ B' = s.B /\ nextB' = s.nextB
  /\ nDisp' = s.nDisp /\ aborting' = s.aborting /\ exc' = s.exc /\ cbpc' = s.cbpc

----------------------------------------------------------------------------
(* Caller thread                                                            *)

\* _reset_run_tracking: the critical section that marks the object running, then the unlocked resets
CallStart ==
  /\ cpc = "idle" /\ call < Calls /\ ~running
  /\ call' = call + 1
  /\ callId' = IF FixCallId THEN call + 1 ELSE callId
  /\ running' = TRUE
  /\ nDisp' = 0 /\ nDone' = 0 /\ exc' = FALSE /\ aborting' = FALSE
  /\ iterating' = FALSE
  /\ out' = <<>> /\ outcome' = "none" /\ buf' = <<>> /\ rem' = <<>>
  /\ want' = "next"     \* __call__ does next(output) itself
  /\ cpc' = "cs2"
  /\ UNCHANGED <<itCall, iterPos, preLeft, origNone, ready, jobs, jobsSet, B, nextB, executed, cbpc>>

\* the locked block of __call__ (after the backend has been configured): call id (old code), ready queue,
\* then the input iterator and its pre_dispatch-long slice
CallStart2 ==
  /\ cpc = "cs2"
  /\ callId' = call /\ itCall' = call
  /\ ready' = IF FixReady THEN <<>> ELSE ready
  /\ iterPos' = 0
  /\ preLeft' = IF All THEN 0 ELSE PRE
  /\ origNone' = All
  /\ cpc' = "d1"
  /\ UNCHANGED <<call, jobs, jobsSet, B, nextB, nDisp, nDone, iterating, aborting, exc, running, buf, rem,
                 want, out, outcome, executed, cbpc>>

Which == IF All THEN "all" ELSE "pre"

\* first dispatch_one_batch of _start (unlocked abort check folded in: aborting is FALSE here
\* unless a callback of this call already failed, which needs a dispatched batch first)
D1 ==
  /\ cpc = "d1"
  /\ \E bs \in BSizes :
       LET r == DOB(Pack, Which, bs) IN
       /\ Unpack(r.s)
       /\ cpc' = IF r.ret THEN "setiter" ELSE "afterstart"
  /\ UNCHANGED <<call, callId, itCall, origNone, nDone, iterating, running, buf, rem, want, out, outcome, executed>>

SetIter ==
  /\ cpc = "setiter"
  /\ iterating' = ~origNone
  /\ cpc' = "dl_check"
  /\ UNCHANGED <<call, callId, itCall, iterPos, preLeft, origNone, ready, jobs, jobsSet, B, nextB, nDisp,
                 nDone, aborting, exc, running, buf, rem, want, out, outcome, executed, cbpc>>

\* unlocked:  if self._aborting: return False
DLCheck ==
  /\ cpc = "dl_check"
  /\ cpc' = IF aborting THEN "afterstart" ELSE "dl_locked"
  /\ UNCHANGED <<call, callId, itCall, iterPos, preLeft, origNone, ready, jobs, jobsSet, B, nextB, nDisp,
                 nDone, iterating, aborting, exc, running, buf, rem, want, out, outcome,
                 executed, cbpc>>

DLLocked ==
  /\ cpc = "dl_locked"
  /\ \E bs \in BSizes :
       LET r == DOB(Pack, Which, bs) IN
       /\ Unpack(r.s)
       /\ cpc' = IF r.ret THEN "dl_check" ELSE "afterstart"
  /\ UNCHANGED <<call, callId, itCall, origNone, nDone, iterating, running, buf, rem, want, out, outcome, executed>>

AfterStart ==
  /\ cpc = "afterstart"
  /\ iterating' = IF All THEN FALSE ELSE iterating
  /\ cpc' = "yield0"
  /\ want' = IF IsGen THEN "none" ELSE "next"   \* list(output) keeps pulling
  /\ UNCHANGED <<call, callId, itCall, iterPos, preLeft, origNone, ready, jobs, jobsSet, B, nextB, nDisp,
                 nDone, aborting, exc, running, buf, rem, out, outcome, executed, cbpc>>

\* consumer (generator modes)
ConsumerNext ==
  /\ IsGen /\ want = "none" /\ cpc \in {"yield0", "r_yielded", "rem_yielded"}
  /\ want' = "next"
  /\ UNCHANGED <<call, callId, itCall, iterPos, preLeft, origNone, ready, jobs, jobsSet, B, nextB, nDisp,
                 nDone, iterating, aborting, exc, running, cpc, buf, rem, out, outcome,
                 executed, cbpc>>

ConsumerClose ==
  /\ IsGen /\ want = "none" /\ cpc \in {"yield0", "r_yielded", "rem_yielded"}
  /\ want' = "close"
  /\ UNCHANGED <<call, callId, itCall, iterPos, preLeft, origNone, ready, jobs, jobsSet, B, nextB, nDisp,
                 nDone, iterating, aborting, exc, running, cpc, buf, rem, out, outcome,
                 executed, cbpc>>

Resume ==
  /\ want = "next" /\ cpc \in {"yield0", "r_yielded"}
  /\ cpc' = IF cpc = "yield0" THEN "wr" ELSE "r_yield"
  /\ UNCHANGED <<call, callId, itCall, iterPos, preLeft, origNone, ready, jobs, jobsSet, B, nextB, nDisp,
                 nDone, iterating, aborting, exc, running, buf, rem, want, out, outcome,
                 executed, cbpc>>

\* GeneratorExit delivered at a yield inside the try block
GenExit ==
  /\ want = "close" /\ cpc \in {"yield0", "r_yielded"}
  /\ exc' = TRUE /\ aborting' = TRUE
  /\ cpc' = "finally"
  /\ outcome' = "closed"
  /\ UNCHANGED <<call, callId, itCall, iterPos, preLeft, origNone, ready, jobs, jobsSet, B, nextB, nDisp,
                 nDone, iterating, running, buf, rem, want, out, executed, cbpc>>

\* _raise_error_fast: first job in _jobs with an error status (0 = none)
IsErr(id) == B[id].status \in {"error", "itererror"}
ErrJob == IF \E i \in 1..Len(jobs) : IsErr(jobs[i])
          THEN jobs[CHOOSE i \in 1..Len(jobs) : IsErr(jobs[i]) /\ \A j \in 1..(i-1) : ~IsErr(jobs[j])]
          ELSE 0
ErrOutcome == IF B[ErrJob].status = "itererror" THEN "raised_iter" ELSE "raised_task"

\* _wait_retrieval + abort check + head check, evaluated without the lock
WaitRetrieval ==
  /\ cpc = "wr" /\ want = "next"
  /\ IF ~(iterating \/ nDone < nDisp)
     THEN IF FixD8 /\ aborting /\ ErrJob # 0
          THEN cpc' = "exc_handler" /\ outcome' = ErrOutcome
          ELSE cpc' = "finally" /\ UNCHANGED <<outcome>>
     ELSE IF aborting
          THEN \* _raise_error_fast: first job in _jobs with an error status
               IF \E i \in 1..Len(jobs) : B[jobs[i]].status \in {"error", "itererror"}
               THEN /\ cpc' = "exc_handler"
                    /\ outcome' = LET i == CHOOSE i \in 1..Len(jobs) :
                                        /\ B[jobs[i]].status \in {"error", "itererror"}
                                        /\ \A j \in 1..(i-1) : B[jobs[j]].status \notin {"error", "itererror"}
                                  IN IF B[jobs[i]].status = "itererror" THEN "raised_iter" ELSE "raised_task"
               ELSE cpc' = "finally" /\ UNCHANGED outcome
          ELSE IF jobs # <<>> /\ B[Head(jobs)].status # "pending"
               THEN cpc' = "r_pop" /\ UNCHANGED outcome
               ELSE cpc' = "wr" /\ UNCHANGED outcome      \* sleep(0.01) and retry
  /\ UNCHANGED <<call, callId, itCall, iterPos, preLeft, origNone, ready, jobs, jobsSet, B, nextB, nDisp,
                 nDone, iterating, aborting, exc, running, buf, rem, want, out, executed, cbpc>>

Results(id) == [i \in 1..(B[id].hi - B[id].lo) |-> <<B[id].c, B[id].lo + i - 1>>]

RPop ==
  /\ cpc = "r_pop"
  /\ LET id == Head(jobs) IN
     /\ jobs' = Tail(jobs)
     /\ jobsSet' = jobsSet \ {id}
     /\ IF B[id].status \in {"error", "itererror"}
        THEN /\ cpc' = "exc_handler"
             /\ outcome' = IF B[id].status = "itererror" THEN "raised_iter" ELSE "raised_task"
             /\ buf' = buf
        ELSE /\ buf' = Results(id) /\ cpc' = "r_yield" /\ UNCHANGED outcome
  /\ UNCHANGED <<call, callId, itCall, iterPos, preLeft, origNone, ready, B, nextB, nDisp, nDone, iterating,
                 aborting, exc, running, rem, want, out, executed, cbpc>>

RYield ==
  /\ cpc = "r_yield" /\ want = "next"
  /\ IF buf = <<>>
     THEN cpc' = "wr" /\ UNCHANGED <<out, buf, want>>
     ELSE /\ out' = Append(out, Head(buf)) /\ buf' = Tail(buf)
          /\ cpc' = "r_yielded"
          /\ want' = IF IsGen THEN "none" ELSE "next"
  /\ UNCHANGED <<call, callId, itCall, iterPos, preLeft, origNone, ready, jobs, jobsSet, B, nextB, nDisp,
                 nDone, iterating, aborting, exc, running, rem, outcome, executed, cbpc>>

ExcHandler ==
  /\ cpc = "exc_handler"
  /\ exc' = TRUE /\ aborting' = TRUE
  /\ cpc' = "finally"
  /\ UNCHANGED <<call, callId, itCall, iterPos, preLeft, origNone, ready, jobs, jobsSet, B, nextB, nDisp,
                 nDone, iterating, running, buf, rem, want, out, outcome, executed, cbpc>>

Finally ==
  /\ cpc = "finally"
  /\ AbortJoins => \A id \in 1..Len(cbpc) : cbpc[id] # "registered"
  /\ rem' = IF exc THEN <<>> ELSE jobs
  /\ jobs' = <<>> /\ jobsSet' = {}
  /\ running' = FALSE
  /\ cpc' = IF outcome \in {"raised_task", "raised_iter", "closed"} THEN "done" ELSE "rem"
  /\ UNCHANGED <<call, callId, itCall, iterPos, preLeft, origNone, ready, B, nextB, nDisp, nDone, iterating,
                 aborting, exc, buf, want, out, outcome, executed, cbpc>>

RemStep ==
  /\ cpc \in {"rem", "rem_yielded"} /\ want = "next"
  /\ IF buf # <<>>
     THEN /\ out' = Append(out, Head(buf)) /\ buf' = Tail(buf)
          /\ cpc' = "rem_yielded" /\ want' = IF IsGen THEN "none" ELSE "next"
          /\ UNCHANGED <<rem, outcome>>
     ELSE IF rem # <<>>
          THEN /\ buf' = Results(Head(rem)) /\ rem' = Tail(rem) /\ cpc' = "rem"
               /\ UNCHANGED <<out, want, outcome>>
          ELSE /\ cpc' = "done" /\ outcome' = "returned" /\ UNCHANGED <<out, buf, rem, want>>
  /\ UNCHANGED <<call, callId, itCall, iterPos, preLeft, origNone, ready, jobs, jobsSet, B, nextB, nDisp,
                 nDone, iterating, aborting, exc, running, executed, cbpc>>

RemClose ==
  /\ cpc = "rem_yielded" /\ want = "close"
  /\ cpc' = "done" /\ outcome' = "closed"
  /\ UNCHANGED <<call, callId, itCall, iterPos, preLeft, origNone, ready, jobs, jobsSet, B, nextB, nDisp,
                 nDone, iterating, aborting, exc, running, buf, rem, want, out, executed, cbpc>>

NextCall ==
  /\ cpc = "done" /\ call < Calls
  /\ cpc' = "idle"
  /\ UNCHANGED <<call, callId, itCall, iterPos, preLeft, origNone, ready, jobs, jobsSet, B, nextB, nDisp,
                 nDone, iterating, aborting, exc, running, buf, rem, want, out, outcome,
                 executed, cbpc>>

----------------------------------------------------------------------------
(* Backend and callbacks                                                    *)

FirstFail(id) == IF \E t \in Fail : t >= B[id].lo /\ t < B[id].hi /\ B[id].c = call
                 THEN CHOOSE t \in Fail : /\ t >= B[id].lo /\ t < B[id].hi
                                          /\ \A u \in Fail : (u >= B[id].lo /\ u < B[id].hi) => t <= u
                 ELSE -1

BatchFails(id) == B[id].c \in FailCalls /\ \E t \in Fail : t >= B[id].lo /\ t < B[id].hi

\* a worker runs the whole batch (stops at the first failing task)
WorkerRun(id) ==
  /\ id \in 1..Len(B) /\ B[id].st = "queued"
  /\ Cardinality({j \in 1..Len(B) : B[j].st = "running"}) < NJ
  /\ B' = [B EXCEPT ![id].st = "running"]
  /\ UNCHANGED <<call, callId, itCall, iterPos, preLeft, origNone, ready, jobs, jobsSet, nextB, nDisp, nDone,
                 iterating, aborting, exc, running, cpc, buf, rem, want, out, outcome,
                 executed, cbpc>>

WorkerFinish(id) ==
  /\ id \in 1..Len(B) /\ B[id].st = "running"
  /\ LET upto == IF BatchFails(id)
                 THEN (CHOOSE t \in Fail : /\ t >= B[id].lo /\ t < B[id].hi
                                           /\ \A u \in Fail : (u >= B[id].lo /\ u < B[id].hi) => t <= u) + 1
                 ELSE B[id].hi
         ran == {<<B[id].c, t>> : t \in B[id].lo..(upto - 1)}
     IN executed' = [x \in DOMAIN executed \cup ran |->
                       (IF x \in DOMAIN executed THEN executed[x] ELSE 0)
                       + (IF x \in ran THEN 1 ELSE 0)]
  /\ B' = [B EXCEPT ![id].st = "finished"]
  /\ UNCHANGED <<call, callId, itCall, iterPos, preLeft, origNone, ready, jobs, jobsSet, nextB, nDisp, nDone,
                 iterating, aborting, exc, running, cpc, buf, rem, want, out, outcome, cbpc>>

\* first half of BatchCompletionCallBack.__call__ (one critical section)
CbRegister(id) ==
  /\ id \in 1..Len(B) /\ B[id].st = "finished" /\ cbpc[id] = "idle"
  /\ SerialCb => \A j \in 1..Len(cbpc) : cbpc[j] # "registered"
  /\ IF B[id].cid # callId \/ aborting
     THEN /\ cbpc' = [cbpc EXCEPT ![id] = "done"]
          /\ UNCHANGED <<B, exc, aborting, jobs>>
     ELSE IF BatchFails(id)
          THEN /\ B' = [B EXCEPT ![id].status = "error"]
               /\ exc' = TRUE /\ aborting' = TRUE
               /\ jobs' = IF Ordered THEN jobs ELSE Append(jobs, id)
               /\ cbpc' = [cbpc EXCEPT ![id] = "done"]
          ELSE /\ B' = [B EXCEPT ![id].status = "done"]
               /\ jobs' = IF Ordered THEN jobs ELSE Append(jobs, id)
               /\ cbpc' = [cbpc EXCEPT ![id] = "registered"]
               /\ UNCHANGED <<exc, aborting>>
  /\ UNCHANGED <<call, callId, itCall, iterPos, preLeft, origNone, ready, jobsSet, nextB, nDisp, nDone,
                 iterating, running, cpc, buf, rem, want, out, outcome, executed>>

\* second half: _dispatch_new (count + dispatch_next), one critical section
CbDispatchNew(id) ==
  /\ id \in 1..Len(B) /\ cbpc[id] = "registered"
  /\ IF FixD7 /\ B[id].cid # callId
     THEN \* stale second half: ignored (fix D7)
          /\ cbpc' = [cbpc EXCEPT ![id] = "done"]
          /\ UNCHANGED <<nDone, iterPos, preLeft, origNone, ready, jobs, jobsSet, B, nextB, nDisp,
                         aborting, exc, iterating>>
     ELSE /\ nDone' = nDone + (B[id].hi - B[id].lo)
          /\ IF ~origNone
             THEN IF aborting
                  THEN \* dispatch_one_batch returns False at once
                       /\ iterating' = FALSE /\ origNone' = TRUE
                       /\ cbpc' = [cbpc EXCEPT ![id] = "done"]
                       /\ UNCHANGED <<iterPos, preLeft, ready, jobs, jobsSet, B, nextB, nDisp, aborting, exc>>
                  ELSE \E bs \in BSizes :
                       LET r == DOB(Pack, "orig", bs)
                           s == [r.s EXCEPT !.cbpc[id] = "done"] IN
                       /\ Unpack(s)
                       /\ iterating' = IF r.ret THEN iterating ELSE FALSE
                       /\ origNone' = ~r.ret
             ELSE /\ cbpc' = [cbpc EXCEPT ![id] = "done"]
                  /\ UNCHANGED <<iterPos, preLeft, origNone, ready, jobs, jobsSet, B, nextB, nDisp,
                                 aborting, exc, iterating>>
  /\ UNCHANGED <<call, callId, itCall, running, cpc, buf, rem, want, out, outcome, executed>>

Next ==
  \/ CallStart \/ CallStart2 \/ D1 \/ SetIter \/ DLCheck \/ DLLocked \/ AfterStart
  \/ ConsumerNext \/ ConsumerClose \/ Resume \/ GenExit
  \/ WaitRetrieval \/ RPop \/ RYield \/ ExcHandler \/ Finally \/ RemStep \/ RemClose \/ NextCall
  \/ \E id \in Ids : WorkerRun(id) \/ WorkerFinish(id) \/ CbRegister(id) \/ CbDispatchNew(id)

Spec == Init /\ [][Next]_vars

----------------------------------------------------------------------------
(* Properties                                                               *)

ThisCall(s) == \A i \in 1..Len(s) : s[i][1] = call

\* C04 clean reuse / C01: everything yielded belongs to the current call
NoCarryOver == ThisCall(out)

\* C01: in ordered modes results come in submission order without gaps
InOrder == Ordered => \A i \in 1..Len(out) : out[i] = <<call, i - 1>>

NoDup == \A i, j \in 1..Len(out) : i # j => out[i] # out[j]

ExactlyOnce == \A x \in DOMAIN executed : executed[x] <= 1

Complete ==
  (outcome = "returned") =>
     /\ Len(out) = N
     /\ \A t \in 0..(N-1) : <<call, t>> \in DOMAIN executed

FailureSurfaces ==
  (outcome = "returned") => (call \notin FailCalls \/ (Fail = {} /\ IterFailAt > N))

\* C09: look-ahead bound in tasks
MaxBS == CHOOSE b \in BSizes : \A c \in BSizes : c <= b
CompletedTasks == nDone
Lookahead ==
  (~All /\ running) => iterPos - nDone <= PRE + NJ * MaxBS + NJ * MaxBS

CONSTANT K
LookK == (~All /\ running) => iterPos - nDone <= K
InFlightBatches == Cardinality({j \in 1..Len(B) : B[j].cid = callId /\ B[j].status = "pending" /\ B[j].hi > B[j].lo})
CONSTANT KB
InFlightK == running => InFlightBatches <= KB

\* C04: what the current call dispatched and counts belongs to the current call's input
DispatchedBelongToCall ==
  cpc \notin {"idle", "cs2"} => \A id \in 1..Len(B) : B[id].cid = callId => B[id].c = call

Inv == NoCarryOver /\ InOrder /\ NoDup /\ ExactlyOnce /\ Complete /\ FailureSurfaces

\* C04: every call terminates (fairness on every thread); checked without state constraint
Fairness ==
  /\ WF_vars(CallStart \/ CallStart2 \/ D1 \/ SetIter \/ DLCheck \/ DLLocked \/ AfterStart \/ Resume \/ GenExit
              \/ WaitRetrieval \/ RPop \/ RYield \/ ExcHandler \/ Finally \/ RemStep \/ RemClose \/ NextCall)
  /\ WF_vars(ConsumerNext \/ ConsumerClose)
  /\ \A id \in Ids : WF_vars(WorkerRun(id)) /\ WF_vars(WorkerFinish(id)) /\ WF_vars(CbRegister(id))
                      /\ WF_vars(CbDispatchNew(id))
FairSpec == Spec /\ Fairness
Termination == <>[](cpc = "done" /\ call = Calls)
=============================================================================
