SPECIFICATION TSpec
CONSTRAINT Progress
POSTCONDITION Accepted
CHECK_DEADLOCK FALSE
