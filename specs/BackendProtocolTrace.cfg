SPECIFICATION TSpec
CONSTANTS MaxCalls = 1000 MaxSubmits = 100000 GuardStop = TRUE AbortOnce = TRUE
CONSTRAINT Progress
POSTCONDITION Accepted
CHECK_DEADLOCK FALSE
