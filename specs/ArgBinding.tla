----------------------------- MODULE ArgBinding -----------------------------
(* Python's argument binding rules (inspect.Signature.bind + apply_defaults)   *)
(* transcribed; every (signature, call) state becomes one test of filter_args. *)
EXTENDS Integers, Sequences, FiniteSets, TLC, Json
CONSTANTS MaxN, MaxExtraPos

Kinds == {"PO", "PK", "VA", "KO", "VK"}
Rank(k) == CASE k = "PO" -> 1 [] k = "PK" -> 2 [] k = "VA" -> 3 [] k = "KO" -> 4 [] k = "VK" -> 5
Param == [k : Kinds, d : BOOLEAN]

ValidSig(s) ==
  /\ \A i \in 1..Len(s) : \A j \in 1..Len(s) : i < j => Rank(s[i].k) <= Rank(s[j].k)
  /\ Cardinality({i \in 1..Len(s) : s[i].k = "VA"}) <= 1
  /\ Cardinality({i \in 1..Len(s) : s[i].k = "VK"}) <= 1
  /\ \A i \in 1..Len(s) : s[i].k \in {"VA", "VK"} => ~s[i].d
  /\ \A i \in 1..Len(s) : \A j \in 1..Len(s) :
        (i < j /\ s[i].k \in {"PO", "PK"} /\ s[j].k \in {"PO", "PK"} /\ s[i].d) => s[j].d

Sigs == {s \in UNION {[1..n -> Param] : n \in 0..MaxN} : ValidSig(s)}

Positional(s) == {i \in 1..Len(s) : s[i].k \in {"PO", "PK"}}
NP(s) == Cardinality(Positional(s))
HasVA(s) == \E i \in 1..Len(s) : s[i].k = "VA"
HasVK(s) == \E i \in 1..Len(s) : s[i].k = "VK"

\* a call: number of positional arguments and the set of keyword names used:
\* parameter indices 1..Len(s) (the keyword spelled like that parameter) and 0 (a name no parameter has)
Calls(s) == [npos : 0..(NP(s) + MaxExtraPos),
             kw : SUBSET ({i \in 1..Len(s) : s[i].k \in {"PO", "PK", "KO"}} \cup {0})]

\* result: "error" or a function from parameter index to <<"pos", j>> | <<"kw", i>> | <<"dflt", i>> |
\*         <<"star", from, to>> | <<"starstar", set>>
BindsByKw(s, c, i) == s[i].k \in {"PK", "KO"} /\ i \in c.kw
ExtraKw(s, c) == {i \in c.kw : i = 0 \/ s[i].k = "PO"}

Error(s, c) ==
  \/ c.npos > NP(s) /\ ~HasVA(s)                                           \* too many positionals
  \/ \E i \in Positional(s) : i <= c.npos /\ s[i].k = "PK" /\ i \in c.kw    \* multiple values
  \/ \E i \in Positional(s) : i > c.npos /\ ~BindsByKw(s, c, i) /\ ~s[i].d  \* missing positional
  \/ \E i \in 1..Len(s) : s[i].k = "KO" /\ i \notin c.kw /\ ~s[i].d         \* missing keyword-only
  \/ ExtraKw(s, c) # {} /\ ~HasVK(s)                                        \* unexpected keyword

\* positional parameters are exactly the first NP(s) entries of a valid signature
Bind(s, c) ==
  [i \in 1..Len(s) |->
     CASE s[i].k \in {"PO", "PK"} ->
            IF i <= c.npos THEN <<"pos", i - 1>>
            ELSE IF BindsByKw(s, c, i) THEN <<"kw", i>> ELSE <<"dflt", i>>
       [] s[i].k = "KO" -> IF i \in c.kw THEN <<"kw", i>> ELSE <<"dflt", i>>
       [] s[i].k = "VA" -> <<"star", NP(s), IF c.npos > NP(s) THEN c.npos ELSE NP(s)>>
       [] s[i].k = "VK" -> <<"starstar", ExtraKw(s, c)>>]

VARIABLES sig, call
Init == sig \in Sigs /\ call \in Calls(sig)
Next == UNCHANGED <<sig, call>>

Emit == PrintT(ToJson([sig |-> sig, npos |-> call.npos, kw |-> call.kw,
                       res |-> IF Error(sig, call) THEN <<"error">> ELSE <<"ok", Bind(sig, call)>>]))
=============================================================================
