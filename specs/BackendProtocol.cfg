SPECIFICATION Spec
CONSTANTS MaxCalls = 3 MaxSubmits = 2 GuardStop = TRUE AbortOnce = TRUE
INVARIANT TypeOK
INVARIANT Protocol
INVARIANT CleanWhenIdle
PROPERTY CleanAtMarkers
INVARIANT Reusable
INVARIANT NoCallInsideCall
PROPERTY Quiesces
