------------------------- MODULE BackendMonitorTrace -------------------------
(***************************************************************************)
(* The backend's view alone: a recorded sequence of backend calls and      *)
(* caller markers is replayed through BackendMonitor; every event is       *)
(* accepted, `why` keeps the first breach (out-of-order backend call, or   *)
(* an unclean state when the caller has the outcome / left the with block  *)
(* / is done).  Deterministic: one state per line.                         *)
(***************************************************************************)
EXTENDS BackendMonitor, Naturals, Sequences, TLC, Json, IOUtils, TLCExt
Traces == JsonDeserialize(IOEnv.TRACE_FILE)
NT == Len(Traces)
ASSUME \A i \in 1..NT : TLCSet(i, <<0, "ok">>)
VARIABLES t, l, pool, inCall, inWith, why
tvars == <<t, l, pool, inCall, inWith, why>>
TInit == t \in 1..NT /\ l = 1 /\ pool = "down" /\ inCall = FALSE /\ inWith = FALSE /\ why = "ok"
Ev == Traces[t][l]
TNext ==
  /\ l <= Len(Traces[t]) /\ why = "ok"
  /\ l' = l + 1 /\ t' = t
  /\ pool' = PoolAfter(Ev, pool) /\ inCall' = InCallAfter(Ev, inCall)
  /\ inWith' = (IF Ev.ev = "Enter" THEN TRUE ELSE IF Ev.ev = "Exit" THEN FALSE ELSE inWith)
  /\ why' = (LET b == Breach(Ev, pool, inCall) IN IF b # "ok" THEN b ELSE CleanAt(Ev, pool', inCall', inWith'))
TSpec == TInit /\ [][TNext]_tvars
Progress == TLCSet(t, <<l, why>>)
Accepted ==
  LET bad == {i \in 1..NT : TLCGet(i)[2] # "ok"}
  IN IF bad = {} THEN TRUE
     ELSE PrintT(<<"REJECTED", {<<i, TLCGet(i)[1] - 1, TLCGet(i)[2]>> : i \in bad}>>) /\ FALSE
=============================================================================
