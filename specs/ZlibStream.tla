----------------------------- MODULE ZlibStream -----------------------------
(***************************************************************************)
(* Reference semantics of a read-only binary stream over S uncompressed    *)
(* bytes (C13): what BinaryZlibFile / BinaryGzipFile opened for reading    *)
(* must do.  The payload is abstract: a read returns the interval          *)
(* [from, to) of the payload; newline offsets NL decide readline.          *)
(* TLC enumerates every operation sequence of length L with the responses  *)
(* the specification dictates; each one is replayed on the real classes.   *)
(***************************************************************************)
EXTENDS Integers, Sequences, FiniteSets, TLC, Json

CONSTANTS S,        \* payload length
          Ns,       \* operands of read(n) / readinto(buffer of n bytes)
          PosOffs,  \* non-negative operands of seek(off, whence)
          NegOffs,  \* magnitudes of the negative operands (cfg files cannot spell negative numbers)
          NL,       \* offsets of newline bytes in the payload
          L         \* length of the generated operation sequences

Offs == PosOffs \cup {0 - x : x \in NegOffs}

VARIABLES pos, hist
vars == <<pos, hist>>

Min(a, b) == IF a < b THEN a ELSE b
Max(a, b) == IF a > b THEN a ELSE b
Clamp(p) == Min(Max(p, 0), S)

Init == pos = 0 /\ hist = <<>>

Resp(op, a, b, from, to) == [op |-> op, a |-> a, b |-> b, from |-> from, to |-> to]

Read(n) ==           \* read(n), n >= 0: up to n bytes
  /\ n >= 0
  /\ pos' = Min(pos + n, S)
  /\ hist' = Append(hist, Resp("read", n, 0, pos, Min(pos + n, S)))
ReadAll ==           \* read() / read(-1)
  /\ pos' = S /\ hist' = Append(hist, Resp("readall", 0, 0, pos, S))
ReadInto(n) ==
  /\ n >= 0
  /\ pos' = Min(pos + n, S)
  /\ hist' = Append(hist, Resp("readinto", n, 0, pos, Min(pos + n, S)))
NextNL == IF \E x \in NL : x >= pos THEN (CHOOSE x \in NL : x >= pos /\ \A y \in NL : y >= pos => x <= y) + 1 ELSE S
ReadLine ==
  /\ pos' = Min(NextNL, S)
  /\ hist' = Append(hist, Resp("readline", 0, 0, pos, Min(NextNL, S)))
Tell == pos' = pos /\ hist' = Append(hist, Resp("tell", 0, 0, pos, pos))
\* seek to a position at or after the start; past the end clamps to the end
Seek(off, whence) ==
  LET target == IF whence = 0 THEN off ELSE IF whence = 1 THEN pos + off ELSE S + off
  IN /\ target >= 0
     /\ pos' = Min(target, S)
     /\ hist' = Append(hist, Resp("seek", off, whence, Min(target, S), Min(target, S)))

Next ==
  /\ Len(hist) < L
  /\ \/ \E n \in Ns : Read(n) \/ ReadInto(n)
     \/ ReadAll \/ ReadLine \/ Tell
     \/ \E off \in Offs, w \in 0..2 : Seek(off, w)

Spec == Init /\ [][Next]_vars
PosInRange == pos \in 0..S
\* every response is an interval inside the payload, starting where the stream was
Wellformed == \A i \in 1..Len(hist) : 0 <= hist[i].from /\ hist[i].from <= hist[i].to /\ hist[i].to <= S
Emit == (Len(hist) = L) => PrintT(ToJson(hist))
=============================================================================
