--------------------------- MODULE BackendProtocol ---------------------------
(***************************************************************************)
(* The life-cycle protocol between one joblib.Parallel object and its      *)
(* backend: configure / start_call / submit / abort_everything / stop_call *)
(* / terminate, as driven by __enter__, __call__, the output generator's   *)
(* finalisation (normal end, error, timeout, close, drop) and __exit__.    *)
(* Implementation-shaped (parallel.py): the flags _managed_backend,        *)
(* _calling, _aborted, _running and the three helpers                      *)
(*   _initialize_backend   -> Configure                                    *)
(*   _abort                -> Abort(ensure_ready = _managed_backend) once  *)
(*   _terminate_and_reset  -> [StopCall if _calling] [Terminate if         *)
(*                            not _managed_backend]                        *)
(* are modelled one action per backend call: `todo` is the rest of the     *)
(* helper sequence the (single) caller thread is executing.                *)
(* The backend side is a monitor: `err` names the first out-of-protocol    *)
(* call.  Checked (C04 "stays reusable and clean", C16 "terminates         *)
(* cleanly and leaves the Parallel object reusable"):                      *)
(*   Protocol      err = "ok": submit/start_call only on a live pool,      *)
(*                 start/stop strictly alternate, no terminate inside a    *)
(*                 call, no second configure of a live pool                *)
(*   CleanWhenIdle whenever the object is quiescent the pool is down       *)
(*                 (unmanaged) or up (inside `with`), never inside a call  *)
(*   Reusable      a quiescent object accepts the next call                *)
(*   Quiesces      (liveness) every run reaches quiescence                 *)
(***************************************************************************)
EXTENDS Naturals, Sequences, TLC, BackendMonitor

CONSTANTS MaxCalls,     \* bound on calls per behaviour
          MaxSubmits,   \* bound on submits per run
          GuardStop,    \* TRUE: stop_call only while _calling (the code); FALSE: sensitivity run
          AbortOnce     \* TRUE: abort_everything only while not _aborted (the code); FALSE: sensitivity run

VARIABLES managed,   \* p._managed_backend
          calling,   \* p._calling
          aborted,   \* p._aborted
          running,   \* p._running
          isGen,     \* the current run returns a generator
          genLive,   \* the run's _get_outputs frame has not reached its finally yet
          early,     \* how the last finalisation went (TRUE: error / timeout / close / drop)
          todo,      \* rest of the helper sequence being executed
          pool, inCall, err,        \* backend side (monitor)
          ncalls, nsub, last        \* bounds; last = last visible event (bound to the trace)
vars == <<managed, calling, aborted, running, isGen, genLive, early, todo, pool, inCall, err, ncalls, nsub, last>>

E(ev) == [ev |-> ev]

Init == /\ managed = FALSE /\ calling = FALSE /\ aborted = FALSE /\ running = FALSE /\ isGen = FALSE
        /\ genLive = FALSE /\ early = FALSE /\ todo = <<>> /\ pool = "down" /\ inCall = FALSE /\ err = "ok"
        /\ ncalls = 0 /\ nsub = 0 /\ last = E("Init")

Idle == todo = <<>>
Quiescent == Idle /\ ~genLive

\* _terminate_and_reset as a sequence of backend calls, given the flags at its start
TR(c, m) == (IF c \/ ~GuardStop THEN <<E("StopCall")>> ELSE <<>>) \o (IF ~m THEN <<E("Terminate")>> ELSE <<>>)
AB(m) == IF aborted /\ AbortOnce THEN <<>> ELSE <<[ev |-> "Abort", ready |-> m]>>

\* ---- caller-level steps (visible markers)
Enter ==
  /\ Quiescent /\ ~managed
  /\ managed' = TRUE /\ calling' = FALSE
  /\ todo' = <<E("Configure")>> /\ last' = E("Enter")
  /\ UNCHANGED <<aborted, running, isGen, genLive, early, pool, inCall, err, ncalls, nsub>>

Call(g) ==           \* __call__: _reset_run_tracking accepts
  /\ Idle /\ ~running /\ ncalls < MaxCalls
  /\ running' = TRUE /\ aborted' = FALSE /\ isGen' = g /\ ncalls' = ncalls + 1 /\ nsub' = 0
  /\ todo' = (IF managed THEN <<>> ELSE <<E("Configure")>>) \o <<E("StartCall")>>
  /\ last' = [ev |-> "Call", gen |-> g]
  /\ UNCHANGED <<managed, calling, genLive, early, pool, inCall, err>>

CallFailsAtOnce(g) ==   \* len(iterable) raises: evaluated before the instance is marked as running, nothing else happens
  /\ Idle /\ ~running /\ ncalls < MaxCalls
  /\ ncalls' = ncalls + 1 /\ early' = TRUE /\ last' = [ev |-> "Call", gen |-> g]
  /\ UNCHANGED <<managed, calling, aborted, running, isGen, genLive, todo, pool, inCall, err, nsub>>

CallRejected ==      \* __call__ while a run is in progress: RuntimeError, no backend call at all
  /\ Idle /\ running /\ isGen
  /\ last' = E("Rejected")
  /\ UNCHANGED <<managed, calling, aborted, running, isGen, genLive, early, todo, pool, inCall, err, ncalls, nsub>>

End(kind) ==         \* the caller got the outcome of the call
  /\ Quiescent
  /\ kind \in {"raised_task", "raised_iter", "timeout"} => early
  /\ (kind = "returned") => ~early
  /\ last' = [ev |-> "End", kind |-> kind]
  /\ UNCHANGED <<managed, calling, aborted, running, isGen, genLive, early, todo, pool, inCall, err, ncalls, nsub>>

Done ==
  /\ Quiescent /\ ~managed /\ last.ev # "Done"
  /\ last' = E("Done")
  /\ UNCHANGED <<managed, calling, aborted, running, isGen, genLive, early, todo, pool, inCall, err, ncalls, nsub>>

\* ---- internal steps of the caller thread (not logged)
Finalise(e) ==       \* _get_outputs reaches its except/finally: e = TRUE for error / timeout / close / drop
  /\ Idle /\ genLive
  /\ genLive' = FALSE /\ running' = FALSE /\ early' = e
  /\ aborted' = (aborted \/ e)
  /\ todo' = (IF e THEN AB(managed) ELSE <<>>) \o TR(calling, managed)
  /\ calling' = FALSE
  /\ UNCHANGED <<managed, isGen, pool, inCall, err, ncalls, nsub, last>>

SetupFails ==        \* iter(iterable) or the pre_dispatch expression raises inside __call__, after start_call and before
                     \* anything was dispatched: no abort, the backend is released (_terminate_and_reset), the object is reusable
  /\ Idle /\ genLive /\ nsub = 0 /\ last.ev = "StartCall"
  /\ genLive' = FALSE /\ running' = FALSE /\ early' = TRUE
  /\ todo' = TR(calling, managed) /\ calling' = FALSE
  /\ UNCHANGED <<managed, aborted, isGen, pool, inCall, err, ncalls, nsub, last>>

ExitBegin ==         \* __exit__: unmanage, abort an unfinished generator run, _terminate_and_reset, then "Exit"
  /\ Idle /\ managed /\ (genLive => isGen)
  /\ managed' = FALSE
  /\ todo' = (IF isGen /\ calling THEN AB(FALSE) ELSE <<>>) \o TR(calling, FALSE) \o <<E("Exit")>>
  /\ aborted' = (aborted \/ (isGen /\ calling))
  /\ calling' = FALSE
  /\ UNCHANGED <<running, isGen, genLive, early, pool, inCall, err, ncalls, nsub, last>>

\* ---- backend calls (visible; the monitor judges them)
Mon(e) == /\ err' = (IF err = "ok" THEN Breach(e, pool, inCall) ELSE err)
          /\ pool' = PoolAfter(e, pool) /\ inCall' = InCallAfter(e, inCall)
Step ==
  /\ todo # <<>>
  /\ LET e == Head(todo) IN
     /\ todo' = Tail(todo) /\ last' = e /\ Mon(e)
     /\ genLive' = (IF e.ev = "StartCall" THEN TRUE ELSE genLive)
     /\ calling' = (IF e.ev = "StartCall" THEN TRUE ELSE calling)
  /\ UNCHANGED <<managed, aborted, running, isGen, early, ncalls, nsub>>

Submit ==            \* dispatch by the caller or by a completion callback while the run is live
  /\ Idle /\ genLive /\ ~aborted /\ nsub < MaxSubmits
  /\ nsub' = nsub + 1 /\ last' = E("Submit") /\ Mon(E("Submit"))
  /\ UNCHANGED <<managed, calling, aborted, running, isGen, genLive, early, todo, ncalls>>

Kinds == {"returned", "raised_task", "raised_iter", "timeout", "closed", "other", "none"}
Next == \/ Enter \/ CallRejected \/ Done \/ ExitBegin \/ SetupFails \/ Step \/ Submit
        \/ \E g \in BOOLEAN : Call(g) \/ CallFailsAtOnce(g)
        \/ \E k \in Kinds : End(k)
        \/ \E e \in BOOLEAN : Finalise(e)
Spec == Init /\ [][Next]_vars /\ WF_vars(Step) /\ WF_vars(\E e \in BOOLEAN : Finalise(e))

\* ---- properties
TypeOK == /\ pool \in {"down", "up"} /\ err \in STRING /\ todo \in Seq([ev : STRING] \cup [ev : STRING, ready : BOOLEAN])
Protocol == err = "ok"
CleanWhenIdle == Quiescent => /\ ~inCall /\ ~calling /\ ~running
                              /\ pool = (IF managed THEN "up" ELSE "down")
CleanAtMarkers == [][last' # last => CleanAt(last', pool', inCall', managed') = "ok"]_vars
Reusable == (Quiescent /\ ncalls < MaxCalls) => ENABLED (\E g \in BOOLEAN : Call(g))
NoCallInsideCall == inCall => (genLive \/ todo # <<>>)
Quiesces == []<>Quiescent
=============================================================================
