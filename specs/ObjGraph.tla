------------------------------ MODULE ObjGraph ------------------------------
(***************************************************************************)
(* Object graphs with sharing and cycles (C03): up to N mutable container  *)
(* nodes (node 1 is the root), each with up to MaxKids children that are   *)
(* either nodes (any node: sharing, self reference, mutual recursion) or   *)
(* leaves.  TLC enumerates every graph whose nodes are all reachable from  *)
(* the root; each one is built as a real Python object graph, dumped and   *)
(* loaded, and compared up to isomorphism INCLUDING object identities.     *)
(***************************************************************************)
EXTENDS Integers, Sequences, FiniteSets, TLC, Json
CONSTANTS N, MaxKids, Leaves

VARIABLES n, kids
Child(k) == {<<"n", j>> : j \in 1..k} \cup {<<"l", x>> : x \in Leaves}
KidSeqs(k) == UNION {[1..m -> Child(k)] : m \in 0..MaxKids}

Init == /\ n \in 1..N
        /\ kids \in [1..N -> KidSeqs(N)]
        /\ \A i \in 1..N : i > n => kids[i] = <<>>
        /\ \A i \in 1..n : \A c \in 1..Len(kids[i]) : kids[i][c][1] = "n" => kids[i][c][2] <= n
Next == UNCHANGED <<n, kids>>

Succ(i) == {kids[i][c][2] : c \in {c \in 1..Len(kids[i]) : kids[i][c][1] = "n"}}
RECURSIVE Reach(_, _)
Reach(S, fuel) == IF fuel = 0 THEN S ELSE Reach(S \cup UNION {Succ(i) : i \in S}, fuel - 1)
AllReachable == Reach({1}, N) = 1..n
\* canonical numbering: nodes are numbered in order of first discovery (DFS would be finer; BFS levels suffice to cut symmetric copies)
HasSharing == \E j \in 1..n : Cardinality({<<i, c>> \in (1..n) \X (1..MaxKids) : c <= Len(kids[i]) /\ kids[i][c] = <<"n", j>>}) >= 2
HasCycle == \E i \in 1..n : i \in Reach(Succ(i), N)

Emit == AllReachable => PrintT(ToJson([n |-> n, kids |-> [i \in 1..n |-> kids[i]], sharing |-> HasSharing, cycle |-> HasCycle]))
=============================================================================
