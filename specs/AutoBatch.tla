------------------------------ MODULE AutoBatch ------------------------------
(***************************************************************************)
(* AutoBatchingMixin: the controller that picks the batch size of          *)
(* Parallel(batch_size='auto') from the smoothed duration of completed      *)
(* batches.  Durations are integers (milliseconds) chosen by the            *)
(* environment; the smoothed estimate uses integer arithmetic (the code     *)
(* uses floats - the invariants below do not depend on the rounding).       *)
(*   SizeAtLeastOne   the batch size never drops below 1 (a size of 0 makes *)
(*                    dispatch_one_batch take the input for exhausted and   *)
(*                    silently truncates the call - C01)                    *)
(*   GrowthBounded    the size at most doubles per decision                 *)
(*   ResetOnChange    the estimate restarts whenever the size changes       *)
(***************************************************************************)
EXTENDS Integers, TLC
CONSTANTS Durations,   \* per-task durations in ms the environment may produce
          MaxSize, FixClamp   \* FixClamp = TRUE: current code (max(.., 1) in the "too slow" branch)

MinIdeal == 200
MaxIdeal == 2000
VARIABLES eff, sm, lastChange
vars == <<eff, sm, lastChange>>
Init == eff = 1 /\ sm = 0 /\ lastChange = FALSE

Max2(a, b) == IF a > b THEN a ELSE b
Min2(a, b) == IF a < b THEN a ELSE b

\* batch_completed(batch_size, duration) for a batch of the CURRENT effective size (others are ignored)
Completed(d) ==
  /\ sm' = IF sm = 0 THEN Max2(1, d * eff) ELSE Max2(1, (8 * sm + 2 * d * eff) \div 10)
  /\ UNCHANGED eff /\ lastChange' = FALSE
\* a batch of another size completes: ignored
Ignored == UNCHANGED <<eff, sm>> /\ lastChange' = FALSE

Compute ==
  LET new == IF sm > 0 /\ sm < MinIdeal
               THEN Max2(Min2(2 * eff, 2 * ((eff * MinIdeal) \div sm)), 1)
             ELSE IF sm > MaxIdeal /\ eff >= 2
               THEN (IF FixClamp THEN Max2(2 * ((eff * MinIdeal) \div sm), 1) ELSE 2 * ((eff * MinIdeal) \div sm))
             ELSE eff
  IN /\ eff' = new /\ sm' = (IF new # eff THEN 0 ELSE sm) /\ lastChange' = (new # eff)

Reset == eff' = 1 /\ sm' = 0 /\ lastChange' = FALSE

Next == (\E d \in Durations : Completed(d)) \/ Ignored \/ Compute \/ Reset
Spec == Init /\ [][Next]_vars
Bounded == eff <= MaxSize
SizeAtLeastOne == eff >= 1
GrowthBounded == [][eff' <= 2 * eff \/ eff' = 1]_vars
ResetOnChange == lastChange => sm = 0
=============================================================================
