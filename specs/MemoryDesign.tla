---------------------------- MODULE MemoryDesign ----------------------------
(***************************************************************************)
(* History-level model of joblib.Memory for ONE function identifier        *)
(* (same-named definitions collide on it) - properties C02 C06 C12.        *)
(*                                                                         *)
(* Function objects <<p, i>> live in process p; each runs some code        *)
(* version (Define = a new object with the same name, Swap = its __code__  *)
(* reassigned).  The cache directory holds the stored source (`code`) and, *)
(* per argument key, the version whose code computed the stored result.    *)
(* Per process: _FUNCTION_HASHES (fh), _FUNCTION_CODE_WRITERS (writer) and *)
(* each wrapper's cached source (src / cid = func_code_info).              *)
(* Switches (TRUE = current tree): FixD6, FixD13, FixD5c.                  *)
(***************************************************************************)
EXTENDS Integers, Sequences, FiniteSets, TLC, Json

CONSTANTS Procs, Slots, Vers, Keys, MaxOps, FixD6, FixD13, FixD5c, Gen

Objs == Procs \X Slots

VARIABLES
  ocode,    \* [Objs -> Vers \cup {0}]   code version run by the object, 0 = not defined
  code,     \* stored source (version) or 0
  entries,  \* [Keys -> Vers \cup {0}]   version whose code computed the stored result
  fh,       \* [Objs -> Vers \cup {0}]   _FUNCTION_HASHES of the owner process: code version recorded, 0 = absent
  writer,   \* [Procs -> Objs \cup {<<0, 0>>}]   last object of that process that stored its source
  src,      \* [Objs -> Vers \cup {0}]   source cached by the wrapper (func_code_info)
  cid,      \* [Objs -> Vers \cup {0}]   code version the wrapper believes its cached source belongs to
  must,     \* [Keys -> Vers \cup {0}]   ghost: version for which a completed, not since invalidated call exists
  resp,     \* last response <<version of the returned value, executed?, version of the code that was called>>
  nops,
  hist      \* history of operations (only meaningful when Gen)

vars == <<ocode, code, entries, fh, writer, src, cid, must, resp, nops, hist>>
None == <<0, 0>>

Init ==
  /\ ocode = [o \in Objs |-> 0] /\ code = 0 /\ entries = [k \in Keys |-> 0]
  /\ fh = [o \in Objs |-> 0] /\ writer = [p \in Procs |-> None]
  /\ src = [o \in Objs |-> 0] /\ cid = [o \in Objs |-> 0]
  /\ must = [k \in Keys |-> 0] /\ resp = <<0, FALSE, 0>> /\ nops = 0 /\ hist = <<>>

Log(e) == hist' = IF Gen THEN Append(hist, e) ELSE hist
Step == nops < MaxOps /\ nops' = nops + 1

\* a new function object with the same name (and a new wrapper) in process o[1]
Define(o, v) ==
  /\ Step /\ ocode' = [ocode EXCEPT ![o] = v]
  /\ fh' = [fh EXCEPT ![o] = 0] /\ src' = [src EXCEPT ![o] = 0] /\ cid' = [cid EXCEPT ![o] = 0]
  /\ writer' = [writer EXCEPT ![o[1]] = IF @ = o THEN None ELSE @]
  /\ Log([op |-> "define", p |-> o[1], i |-> o[2], v |-> v])
  /\ UNCHANGED <<code, entries, must, resp>>

\* the same function object gets another code object
Swap(o, v) ==
  /\ Step /\ ocode[o] # 0 /\ ocode[o] # v
  /\ ocode' = [ocode EXCEPT ![o] = v]
  /\ Log([op |-> "swap", p |-> o[1], i |-> o[2], v |-> v])
  /\ UNCHANGED <<code, entries, fh, writer, src, cid, must, resp>>

\* the process ends; a fresh one takes its place
Restart(p) ==
  /\ Step
  /\ ocode' = [o \in Objs |-> IF o[1] = p THEN 0 ELSE ocode[o]]
  /\ fh' = [o \in Objs |-> IF o[1] = p THEN 0 ELSE fh[o]]
  /\ src' = [o \in Objs |-> IF o[1] = p THEN 0 ELSE src[o]]
  /\ cid' = [o \in Objs |-> IF o[1] = p THEN 0 ELSE cid[o]]
  /\ writer' = [writer EXCEPT ![p] = None]
  /\ Log([op |-> "restart", p |-> p])
  /\ UNCHANGED <<code, entries, must, resp>>

Call(o, k) ==
  LET v == ocode[o]
      p == o[1]
      \* func_code_info: cached source, refreshed when the code object changed
      stale == cid[o] # 0 /\ cid[o] # v
      cid2 == IF cid[o] = 0 THEN v ELSE IF stale /\ FixD13 THEN v ELSE cid[o]
      s == IF src[o] = 0 \/ stale THEN v ELSE src[o]
      fast == fh[o] = v /\ (FixD6 => writer[p] = o)
      slowValid == code = s
      valid == fast \/ slowValid
      wipe == ~valid /\ (code # 0 \/ FixD5c)
      ent2 == IF wipe THEN [kk \in Keys |-> 0] ELSE entries
      hit == valid /\ entries[k] # 0
  IN
  /\ Step /\ v # 0
  /\ cid' = [cid EXCEPT ![o] = cid2] /\ src' = [src EXCEPT ![o] = s]
  /\ IF valid
     THEN UNCHANGED <<code, fh, writer>>
     ELSE /\ code' = s /\ fh' = [fh EXCEPT ![o] = v] /\ writer' = [writer EXCEPT ![p] = o]
  /\ entries' = IF hit THEN entries ELSE [ent2 EXCEPT ![k] = v]
  /\ resp' = IF hit THEN <<entries[k], FALSE, v>> ELSE <<v, TRUE, v>>
  /\ must' = IF wipe \/ (\E kk \in Keys : must[kk] # 0 /\ must[kk] # v)
             THEN [kk \in Keys |-> IF kk = k THEN v ELSE 0]
             ELSE [must EXCEPT ![k] = v]
  /\ Log([op |-> "call", p |-> p, i |-> o[2], k |-> k])
  /\ UNCHANGED ocode

ClearFunc(o) ==
  /\ Step /\ ocode[o] # 0
  /\ entries' = [k \in Keys |-> 0] /\ must' = [k \in Keys |-> 0]
  /\ code' = ocode[o] /\ fh' = [fh EXCEPT ![o] = ocode[o]] /\ writer' = [writer EXCEPT ![o[1]] = o]
  /\ src' = [src EXCEPT ![o] = ocode[o]] /\ cid' = [cid EXCEPT ![o] = ocode[o]]
  /\ Log([op |-> "clear", p |-> o[1], i |-> o[2]])
  /\ UNCHANGED <<ocode, resp>>

Evict(k) ==
  /\ Step /\ entries[k] # 0
  /\ entries' = [entries EXCEPT ![k] = 0] /\ must' = [must EXCEPT ![k] = 0]
  /\ Log([op |-> "evict", k |-> k])
  /\ UNCHANGED <<ocode, code, fh, writer, src, cid, resp>>

Next ==
  \/ \E o \in Objs, v \in Vers : Define(o, v) \/ Swap(o, v)
  \/ \E p \in Procs : Restart(p)
  \/ \E o \in Objs, k \in Keys : Call(o, k)
  \/ \E o \in Objs : ClearFunc(o)
  \/ \E k \in Keys : Evict(k)

Spec == Init /\ [][Next]_vars

\* C12 / C02: the value returned was computed by the code that was called
ValueCorrect == resp[1] = resp[3]

\* C06 / C12: a completed call that nothing invalidated is served without executing the body
\* (checked as an action property: the ghost `must` before the call decides)
HitWhenDue ==
  [][\A o \in Objs, k \in Keys :
       (Call(o, k) /\ must[k] = ocode[o] /\ must[k] # 0) => resp'[2] = FALSE]_vars

\* behaviour generation: print the history of every behaviour of maximal length
Emit == (Gen /\ nops = MaxOps) => PrintT(ToJson(hist))
View == <<ocode, code, entries, fh, writer, src, cid, must, resp, nops>>
=============================================================================
