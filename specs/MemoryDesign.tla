---------------------------- MODULE MemoryDesign ----------------------------
(***************************************************************************)
(* History-level model of joblib.Memory for ONE function identifier        *)
(* (same-named definitions collide on it) - properties C02 C06 C12.        *)
(*                                                                         *)
(* Function objects <<p, i>> live in process p; each runs some code        *)
(* version (Define = a new object with the same name, Swap = its __code__  *)
(* reassigned).  The cache directory holds the stored source (`code`) and, *)
(* per argument key, the version whose code computed the stored result.    *)
(* Per process: _FUNCTION_HASHES (fh), _FUNCTION_CODE_WRITERS (writer) and *)
(* each wrapper's cached source (src / cid = func_code_info).  The same    *)
(* function may be cached through several Memory objects (Stores): stored  *)
(* source, results and the writers table are per store, _FUNCTION_HASHES   *)
(* is per function object only.                                            *)
(* Switches (TRUE = current tree): FixD6, FixD13, FixD5c, FixD20.          *)
(***************************************************************************)
EXTENDS Integers, Sequences, FiniteSets, TLC, Json

CONSTANTS Procs, Slots, Vers, Keys, Stores, MaxOps, FixD6, FixD13, FixD5c, FixD20, Gen,
          Aliased,   \* Memory objects (elements of Stores) that are another spelling of the directory of store 1 (relative path, symlink)
          Homonyms,  \* Memory objects spelled like store 1 although they are OTHER directories (one relative path used from two working directories)
          FixD21     \* TRUE: the writers table is keyed by the real directory; FALSE: by the spelling (D21)

Objs == Procs \X Slots
Ph(st) == IF st \in Aliased THEN 1 ELSE st          \* the directory behind a Memory object
Spell(st) == IF st \in Homonyms THEN 1 ELSE st
Wk(st) == IF FixD21 THEN Ph(st) ELSE Spell(st)       \* key of _FUNCTION_CODE_WRITERS

VARIABLES
  ocode,    \* [Objs -> Vers \cup {0}]   code version run by the object, 0 = not defined
  code,     \* [Stores -> stored source (version) or 0]
  entries,  \* [Stores -> [Keys -> Vers \cup {0}]]   version whose code computed the stored result
  fh,       \* [Objs -> Vers \cup {0}]   _FUNCTION_HASHES of the owner process: code version recorded, 0 = absent
  writer,   \* [Procs -> [Stores -> <<object, code version>> or None]]   who last stored its source there (this process)
  src,      \* [Objs -> [Stores -> Vers \cup {0}]]   source cached by the wrapper (func_code_info)
  cid,      \* [Objs -> [Stores -> Vers \cup {0}]]   code version the wrapper believes its cached source belongs to
  must,     \* [Stores -> [Keys -> Vers \cup {0}]]   ghost: version for which a completed, not since invalidated call exists
  resp,     \* last response <<version of the returned value, executed?, version of the code that was called>>
  nops,
  hist      \* history of operations (only meaningful when Gen)

vars == <<ocode, code, entries, fh, writer, src, cid, must, resp, nops, hist>>
None == <<<<0, 0>>, 0>>
ZK == [k \in Keys |-> 0]
ZS == [st \in Stores |-> 0]

Init ==
  /\ ocode = [o \in Objs |-> 0] /\ code = ZS /\ entries = [st \in Stores |-> ZK]
  /\ fh = [o \in Objs |-> 0] /\ writer = [p \in Procs |-> [st \in Stores |-> None]]
  /\ src = [o \in Objs |-> ZS] /\ cid = [o \in Objs |-> ZS]
  /\ must = [st \in Stores |-> ZK] /\ resp = <<0, FALSE, 0>> /\ nops = 0 /\ hist = <<>>

Log(e) == hist' = IF Gen THEN Append(hist, e) ELSE hist
Step == nops < MaxOps /\ nops' = nops + 1

\* a new function object with the same name (and a new wrapper) in process o[1]
Define(o, v) ==
  /\ Step /\ ocode' = [ocode EXCEPT ![o] = v]
  /\ fh' = [fh EXCEPT ![o] = 0] /\ src' = [src EXCEPT ![o] = ZS] /\ cid' = [cid EXCEPT ![o] = ZS]
  /\ writer' = [writer EXCEPT ![o[1]] = [st \in Stores |-> IF @[st][1] = o THEN None ELSE @[st]]]
  /\ Log([op |-> "define", p |-> o[1], i |-> o[2], v |-> v])
  /\ UNCHANGED <<code, entries, must, resp>>

\* the same function object gets another code object
Swap(o, v) ==
  /\ Step /\ ocode[o] # 0 /\ ocode[o] # v
  /\ ocode' = [ocode EXCEPT ![o] = v]
  /\ Log([op |-> "swap", p |-> o[1], i |-> o[2], v |-> v])
  /\ UNCHANGED <<code, entries, fh, writer, src, cid, must, resp>>

\* the process ends; a fresh one takes its place
Restart(p) ==
  /\ Step
  /\ ocode' = [o \in Objs |-> IF o[1] = p THEN 0 ELSE ocode[o]]
  /\ fh' = [o \in Objs |-> IF o[1] = p THEN 0 ELSE fh[o]]
  /\ src' = [o \in Objs |-> IF o[1] = p THEN ZS ELSE src[o]]
  /\ cid' = [o \in Objs |-> IF o[1] = p THEN ZS ELSE cid[o]]
  /\ writer' = [writer EXCEPT ![p] = [st \in Stores |-> None]]
  /\ Log([op |-> "restart", p |-> p])
  /\ UNCHANGED <<code, entries, must, resp>>

Call(o, st, k) ==
  LET v == ocode[o]
      p == o[1]
      \* func_code_info: cached source, refreshed when the code object changed
      stale == cid[o][st] # 0 /\ cid[o][st] # v
      cid2 == IF cid[o][st] = 0 THEN v ELSE IF stale /\ FixD13 THEN v ELSE cid[o][st]
      s == IF src[o][st] = 0 \/ stale THEN v ELSE src[o][st]
      fast == fh[o] = v /\ (FixD6 => writer[p][Wk(st)] = <<o, v>>)
      slowValid == code[Ph(st)] = s
      valid == fast \/ slowValid
      wipe == ~valid /\ (code[Ph(st)] # 0 \/ FixD5c)
      ent2 == IF wipe THEN ZK ELSE entries[Ph(st)]
      hit == valid /\ entries[Ph(st)][k] # 0
  IN
  /\ Step /\ v # 0
  /\ cid' = [cid EXCEPT ![o][st] = cid2] /\ src' = [src EXCEPT ![o][st] = s]
  /\ IF valid
     THEN UNCHANGED <<code, fh, writer>>
     ELSE /\ code' = [code EXCEPT ![Ph(st)] = s] /\ fh' = [fh EXCEPT ![o] = v] /\ writer' = [writer EXCEPT ![p][Wk(st)] = <<o, v>>]
  /\ entries' = IF hit THEN entries ELSE [entries EXCEPT ![Ph(st)] = [ent2 EXCEPT ![k] = v]]
  /\ resp' = IF hit THEN <<entries[Ph(st)][k], FALSE, v>> ELSE <<v, TRUE, v>>
  /\ must' = [must EXCEPT ![Ph(st)] =
                IF wipe \/ (\E kk \in Keys : must[Ph(st)][kk] # 0 /\ must[Ph(st)][kk] # v)
                THEN [kk \in Keys |-> IF kk = k THEN v ELSE 0]
                ELSE [must[Ph(st)] EXCEPT ![k] = v]]
  /\ Log([op |-> "call", p |-> p, i |-> o[2], s |-> st, k |-> k])
  /\ UNCHANGED ocode

\* MemorizedFunc.call(): forced execution, the result is stored.  With FixD20 the stored source is validated first
\* (as in a lookup); without it the result lands next to whatever source is stored (D20).
Force(o, st, k) ==
  LET v == ocode[o]
      p == o[1]
      stale == cid[o][st] # 0 /\ cid[o][st] # v
      cid2 == IF cid[o][st] = 0 THEN v ELSE IF stale /\ FixD13 THEN v ELSE cid[o][st]
      s == IF src[o][st] = 0 \/ stale THEN v ELSE src[o][st]
      fast == fh[o] = v /\ (FixD6 => writer[p][Wk(st)] = <<o, v>>)
      valid == ~FixD20 \/ fast \/ code[Ph(st)] = s
      wipe == ~valid /\ (code[Ph(st)] # 0 \/ FixD5c)
      ent2 == IF wipe THEN ZK ELSE entries[Ph(st)]
  IN
  /\ Step /\ v # 0
  /\ IF FixD20 THEN cid' = [cid EXCEPT ![o][st] = cid2] /\ src' = [src EXCEPT ![o][st] = s] ELSE UNCHANGED <<cid, src>>
  /\ IF valid
     THEN UNCHANGED <<code, fh, writer>>
     ELSE /\ code' = [code EXCEPT ![Ph(st)] = s] /\ fh' = [fh EXCEPT ![o] = v] /\ writer' = [writer EXCEPT ![p][Wk(st)] = <<o, v>>]
  /\ entries' = [entries EXCEPT ![Ph(st)] = [ent2 EXCEPT ![k] = v]]
  /\ resp' = <<v, TRUE, v>>
  /\ must' = [must EXCEPT ![Ph(st)] =
                IF wipe \/ (\E kk \in Keys : must[Ph(st)][kk] # 0 /\ must[Ph(st)][kk] # v)
                THEN [kk \in Keys |-> IF kk = k THEN v ELSE 0]
                ELSE [must[Ph(st)] EXCEPT ![k] = v]]
  /\ Log([op |-> "force", p |-> p, i |-> o[2], s |-> st, k |-> k])
  /\ UNCHANGED ocode

ClearFunc(o, st) ==
  /\ Step /\ ocode[o] # 0
  /\ entries' = [entries EXCEPT ![Ph(st)] = ZK] /\ must' = [must EXCEPT ![Ph(st)] = ZK]
  /\ code' = [code EXCEPT ![Ph(st)] = ocode[o]] /\ fh' = [fh EXCEPT ![o] = ocode[o]] /\ writer' = [writer EXCEPT ![o[1]][Wk(st)] = <<o, ocode[o]>>]
  /\ src' = [src EXCEPT ![o][st] = ocode[o]] /\ cid' = [cid EXCEPT ![o][st] = ocode[o]]
  /\ Log([op |-> "clear", p |-> o[1], i |-> o[2], s |-> st])
  /\ UNCHANGED <<ocode, resp>>

Evict(st, k) ==
  /\ Step /\ st = Ph(st) /\ entries[Ph(st)][k] # 0
  /\ entries' = [entries EXCEPT ![Ph(st)][k] = 0] /\ must' = [must EXCEPT ![Ph(st)][k] = 0]
  /\ Log([op |-> "evict", s |-> st, k |-> k])
  /\ UNCHANGED <<ocode, code, fh, writer, src, cid, resp>>

Next ==
  \/ \E o \in Objs, v \in Vers : Define(o, v) \/ Swap(o, v)
  \/ \E p \in Procs : Restart(p)
  \/ \E o \in Objs, st \in Stores, k \in Keys : Call(o, st, k) \/ Force(o, st, k)
  \/ \E o \in Objs, st \in Stores : ClearFunc(o, st)
  \/ \E st \in Stores, k \in Keys : Evict(st, k)

Spec == Init /\ [][Next]_vars

\* C12 / C02: the value returned was computed by the code that was called
ValueCorrect == resp[1] = resp[3]

\* C06 / C12: a completed call that nothing invalidated is served without executing the body
\* (checked as an action property: the ghost `must` before the call decides)
HitWhenDue ==
  [][\A o \in Objs, st \in Stores, k \in Keys :
       (Call(o, st, k) /\ must[Ph(st)][k] = ocode[o] /\ must[Ph(st)][k] # 0) => resp'[2] = FALSE]_vars

\* behaviour generation: print the history of every behaviour of maximal length
Emit == (Gen /\ nops = MaxOps) => PrintT(ToJson(hist))
View == <<ocode, code, entries, fh, writer, src, cid, must, resp, nops>>
=============================================================================
