------------------------- MODULE ParallelDesignTrace -------------------------
(***************************************************************************)
(* Conformance of the real joblib.Parallel to the implementation-shaped    *)
(* model: traces recorded by the L1 driver (harness/pl1.py, `dtrace`) are  *)
(* checked to be behaviours of ParallelDesign.  Logged events:             *)
(*   CS                     a call starts                                  *)
(*   Sub(lo, hi)            the CALLER dispatched batch [lo, hi)           *)
(*   Cb(lo, ok, sub, slo, shi, pulled, nd, nc)                             *)
(*                          the completion callback of batch lo.. returned;*)
(*                          sub: it dispatched batch [slo, shi) meanwhile; *)
(*                          counters observed afterwards                   *)
(*   Next / Close           consumer decisions (generator modes)           *)
(*   Y(i)                   result i yielded (generator modes)             *)
(*   End(kind, n)           outcome of the call, n results delivered       *)
(* Everything else the model does (unlocked checks, worker steps, pops,    *)
(* polls, first halves of callbacks) is unlogged: TLC finds it.            *)
(* A rejected trace is DRIFT between code and design model - reported and  *)
(* counted, never an alarm by itself (the verdict is ParallelAbs').        *)
(***************************************************************************)
EXTENDS ParallelDesign, Json, IOUtils, TLCExt
Traces == JsonDeserialize(IOEnv.TRACE_FILE)
NT == Len(Traces)
ASSUME \A i \in 1..NT : TLCSet(i, 0)
VARIABLES t, l
tvars == <<vars, t, l>>
TInit == Init /\ t \in 1..NT /\ l = 1
More == l <= Len(Traces[t])
Ev == Traces[t][l]
Is(e) == More /\ Ev.ev = e
Consume == l' = l + 1 /\ t' = t
Silent == l' = l /\ t' = t

NewBatch == Len(B') = Len(B) + 1 /\ B'[Len(B')].status = "pending"
NewLo == B'[Len(B')].lo
NewHi == B'[Len(B')].hi

CallerDispatch(A) ==
  /\ A
  /\ IF NewBatch THEN Is("Sub") /\ Ev.lo = NewLo /\ Ev.hi = NewHi /\ Consume ELSE Silent

Ends(A) ==   \* an action that may finish the call
  /\ A
  /\ IF cpc' = "done" /\ cpc # "done"
     THEN Is("End") /\ Ev.kind = outcome' /\ (Ev.n = -1 \/ Ev.n = Len(out')) /\ Consume
     ELSE Silent

Yields(A) ==
  /\ A
  /\ IF Len(out') = Len(out) + 1
     THEN IF IsGen THEN Is("Y") /\ Ev.i = out'[Len(out')][2] /\ out'[Len(out')][1] = call /\ Consume ELSE Silent
     ELSE IF cpc' = "done" /\ cpc # "done"
          THEN Is("End") /\ Ev.kind = outcome' /\ (Ev.n = -1 \/ Ev.n = Len(out')) /\ Consume
          ELSE Silent

CbFirst(id) ==
  /\ CbRegister(id)
  /\ IF cbpc'[id] = "done"      \* failing, stale or ignored callback: the whole callback is this step
     THEN /\ Is("Cb") /\ Ev.lo = B[id].lo /\ Ev.c = B[id].c /\ ~Ev.sub
          /\ Ev.ok = ~BatchFails(id)
          /\ Consume
     ELSE Silent

CbSecond(id) ==
  /\ CbDispatchNew(id)
  /\ Is("Cb") /\ Ev.lo = B[id].lo /\ Ev.c = B[id].c /\ Ev.ok
  /\ Ev.sub = NewBatch
  /\ NewBatch => (Ev.slo = NewLo /\ Ev.shi = NewHi)
  /\ (B[id].cid = callId) => (/\ nDisp' = Ev.nd /\ nDone' = Ev.nc
                              \* (the model moves iterPos to N when the input raises)
                              /\ (\A j \in 1..Len(B') : B'[j].status # "itererror") => iterPos' = Ev.pulled)
  /\ Consume

TNext ==
  \/ Is("CS") /\ CallStart /\ Consume
  \/ (CallStart2 \/ SetIter \/ DLCheck \/ AfterStart \/ Resume \/ WaitRetrieval \/ RPop \/ ExcHandler \/ NextCall) /\ Silent
  \/ CallerDispatch(D1) \/ CallerDispatch(DLLocked)
  \/ Is("Next") /\ ConsumerNext /\ Consume
  \/ Is("Close") /\ ConsumerClose /\ Consume
  \/ GenExit /\ Silent
  \/ Ends(Finally) \/ Ends(RemClose)
  \/ Yields(RYield) \/ Yields(RemStep)
  \* (L1 runs a batch at the moment its completion is delivered: worker steps only just before their Cb event)
  \/ \E id \in Ids : (WorkerRun(id) \/ WorkerFinish(id)) /\ Is("Cb") /\ Ev.lo = B[id].lo /\ Ev.c = B[id].c /\ Silent
  \/ \E id \in Ids : CbFirst(id) \/ CbSecond(id)
TSpec == TInit /\ [][TNext]_tvars
Progress == IF TLCGet(t) < l THEN TLCSet(t, l) ELSE TRUE
Accepted ==
  LET bad == {i \in 1..NT : TLCGet(i) # Len(Traces[i]) + 1}
  IN IF bad = {} THEN TRUE
     ELSE PrintT(<<"REJECTED", {<<i, TLCGet(i), "design-drift">> : i \in bad}>>) /\ FALSE
=============================================================================
