------------------------------ MODULE Sniffing ------------------------------
(***************************************************************************)
(* Content sniffing of joblib.load over a HISTORY of one process (C03):    *)
(* the registry of compressors grows (joblib.register_compressor), files   *)
(* written with any registered compressor are loaded in between.           *)
(* load reads the first N bytes, N = the longest magic prefix registered   *)
(* AT THAT MOMENT, and picks the compressor whose magic the bytes start    *)
(* with; no match means an uncompressed pickle.                            *)
(*   DetectsWriter   every load recognises the compressor the file was     *)
(*                   written with, whatever was registered or loaded       *)
(*                   before                                                *)
(*   PrefixFree      (assumption on the registry, checked on the constants)*)
(*                   no magic is a prefix of another one                   *)
(* Memoised = TRUE (sensitivity): N computed once, at the first load.      *)
(* Magic prefixes are sequences of byte values with the real lengths       *)
(* (zlib 1, gzip 2, bz2 2, lzma 3, xz 6, the old "ZF" format 2).           *)
(* With Gen = TRUE the histories are printed and replayed, one fresh       *)
(* interpreter each.                                                       *)
(***************************************************************************)
EXTENDS Integers, Sequences, FiniteSets, TLC, Json

CONSTANTS Custom,      \* names of compressors that can be registered, e.g. {"c3", "c9"}
          Memoised, MaxLen, Gen

Builtin == {"zlib", "gzip", "bz2", "lzma", "xz"}
Magic(m) == CASE m = "zlib" -> <<120>> [] m = "gzip" -> <<31, 139>> [] m = "bz2" -> <<66, 90>> [] m = "lzma" -> <<93, 0, 0>>
              [] m = "xz" -> <<253, 55, 122, 88, 90, 0>> [] m = "compat" -> <<90, 70>> [] m = "none" -> <<128>>
              [] m = "c3" -> <<86, 90, 51>>                              \* a short custom magic
              [] m = "c9" -> <<86, 69, 82, 73, 70, 45, 76, 78, 71>>     \* longer than every built-in one
Payload == <<7, 7, 7, 7, 7, 7, 7, 7, 7, 7, 7, 7>>

VARIABLES regs, frozen, last, hist
vars == <<regs, frozen, last, hist>>

IsPrefix(p, s) == Len(p) <= Len(s) /\ SubSeq(s, 1, Len(p)) = p
Max(S) == CHOOSE x \in S : \A y \in S : y <= x
SniffLen(R) == Max({Len(Magic(m)) : m \in R \cup {"compat"}})
Take(n, s) == SubSeq(s, 1, IF n < Len(s) THEN n ELSE Len(s))
Detect(R, n, content) ==
  LET first == Take(n, content)
      hits == {m \in R \cup {"compat"} : IsPrefix(Magic(m), first)}
  IN IF hits = {} THEN "none" ELSE CHOOSE m \in hits : TRUE

Init == regs = Builtin /\ frozen = 0 /\ last = <<"none", "none">> /\ hist = <<>>

Register(c) ==
  /\ c \in Custom \ regs
  /\ regs' = regs \cup {c} /\ hist' = Append(hist, <<"register", c>>)
  /\ UNCHANGED <<frozen, last>>

Load(m) ==          \* a file written with compressor m ("none": an uncompressed pickle)
  /\ m \in regs \cup {"none"}
  /\ LET n == IF Memoised /\ frozen # 0 THEN frozen ELSE SniffLen(regs)
     IN /\ last' = <<m, Detect(regs, n, Magic(m) \o Payload)>>
        /\ frozen' = IF frozen = 0 THEN n ELSE frozen
  /\ hist' = Append(hist, <<"load", m>>)
  /\ UNCHANGED regs

Next == /\ Len(hist) < MaxLen
        /\ \/ \E c \in Custom : Register(c)
           \/ \E m \in Builtin \cup Custom \cup {"none"} : Load(m)
Spec == Init /\ [][Next]_vars

DetectsWriter == last[1] = last[2]
PrefixFree == \A a, b \in Builtin \cup Custom \cup {"compat", "none"} : a # b => ~IsPrefix(Magic(a), Magic(b))

Emit == (Gen /\ Len(hist) = MaxLen) => PrintT(ToJson(hist))
View == <<regs, frozen, last>>
=============================================================================
