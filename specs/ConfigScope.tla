----------------------------- MODULE ConfigScope -----------------------------
(***************************************************************************)
(* parallel_config / parallel_backend scoping and the priority of settings *)
(* (C17).  Threads keep a stack of frames; a frame sets a subset of the    *)
(* keys ("U" = not set by this frame).  The configuration a thread sees is *)
(* the innermost setting of every key on ITS OWN stack.  For an observation*)
(* (constructing Parallel with explicit arguments E) the resolved value of *)
(* a key is: explicit, else innermost enclosing context, else default.     *)
(* Backend kind: an explicitly chosen backend wins over `prefer`;          *)
(* require='sharedmem' always yields a thread-based backend (or ValueError *)
(* when a non-shared-memory backend is passed explicitly to Parallel);     *)
(* prefer='processes' moves an unnamed thread-based default to processes.  *)
(* TLC generates programs (enter/exit per thread) together with what every *)
(* thread must observe after every step; they are replayed on real threads.*)
(***************************************************************************)
EXTENDS Integers, Sequences, FiniteSets, TLC, Json

CONSTANTS Threads, Frames, Explicits, MaxDepth, MaxLen, Gen,
          Loose,    \* TRUE: configurations may also be installed without a with block (Install)
          DefB,     \* kind of the process-wide default backend: "proc" (loky, the stock default) or "thr" (a thread-based backend registered with make_default=True)
          ProcAvail \* FALSE: no process-based backend exists in this interpreter (JOBLIB_MULTIPROCESSING=0, or a platform without working
                    \* semaphores): the stock default is the threading backend, naming "loky"/"multiprocessing" falls back to it (with a
                    \* warning), and prefer='processes' - a hint - changes nothing
ASSUME ~ProcAvail => DefB = "thr"
\* Frames: set of records over the keys below, value "U" = unset; Explicits: SEQUENCE of such records

Keys == {"b", "nj", "vb", "mx", "mm", "tf", "pf", "rq"}
Default == [b |-> "proc", nj |-> "default", vb |-> "0", mx |-> "1M", mm |-> "r", tf |-> "None", pf |-> "None", rq |-> "None"]

VARIABLES stack, hist,
          loose       \* [Threads -> Seq(BOOLEAN)], parallel to stack: TRUE for a configuration installed WITHOUT a with block
                      \* (parallel_config(...) / parallel_backend(...) called as a plain statement: it takes effect at once and
                      \* nobody unregisters it); leaving an enclosing with block restores what was active when that block was
                      \* entered, i.e. removes the loose configurations installed inside it as well
vars == <<stack, hist, loose>>

Init == stack = [t \in Threads |-> <<>>] /\ hist = <<>> /\ loose = [t \in Threads |-> <<>>]

\* innermost setting of key k on stack s, or "U"
RECURSIVE Innermost(_, _)
Innermost(s, k) == IF s = <<>> THEN "U"
                   ELSE IF s[Len(s)][k] # "U" THEN s[Len(s)][k] ELSE Innermost(SubSeq(s, 1, Len(s) - 1), k)

Resolve(s, e, k) == IF e[k] # "U" THEN e[k] ELSE IF Innermost(s, k) # "U" THEN Innermost(s, k) ELSE Default[k]

Eff(b) == IF ~ProcAvail /\ b = "proc" THEN "thr" ELSE b       \* what naming a backend of kind b gives

\* the active (context or default) backend would be switched to threads (finding D11 concerns n_jobs in exactly this situation)
WouldForce(s, e) ==
  LET ctxb == Innermost(s, "b") base == IF ctxb # "U" THEN Eff(ctxb) ELSE DefB
  IN (Resolve(s, e, "rq") = "sharedmem" /\ base = "proc") \/ (ctxb = "U" /\ Resolve(s, e, "pf") = "threads" /\ base = "proc")

\* what constructing Parallel(**e) in a thread whose stack is s must give
Expect(s, e) ==
  LET pf == Resolve(s, e, "pf")
      rq == Resolve(s, e, "rq")
      ctxb == Innermost(s, "b")                       \* backend chosen by a context, "U" if none
      plain == [k \in {"vb", "mx", "mm", "tf", "nj"} |-> Resolve(s, e, k)]
  IN IF pf = "processes" /\ rq = "sharedmem" THEN [kind |-> "ValueError"]
     ELSE IF e.b # "U"
          THEN \* explicit backend: it is used whatever prefer says; sharedmem cannot be satisfied by a process backend
               IF rq = "sharedmem" /\ Eff(e.b) = "proc" THEN [kind |-> "ValueError"]
               ELSE [kind |-> "ok", backend |-> Eff(e.b), forced |-> WouldForce(s, e), plain |-> plain]
          ELSE LET base == IF ctxb # "U" THEN Eff(ctxb) ELSE DefB
                   forced == (rq = "sharedmem" /\ base = "proc") \/ (ctxb = "U" /\ pf = "threads" /\ base = "proc")
                   \* no backend named anywhere, processes preferred, thread-based default: the default PROCESS backend is used
                   \* (every other setting of the enclosing contexts, n_jobs included, still applies)
                   forcedP == ctxb = "U" /\ pf = "processes" /\ base = "thr" /\ ProcAvail
               IN [kind |-> "ok", backend |-> IF forced THEN "thr" ELSE IF forcedP THEN "proc" ELSE base, forced |-> forced, plain |-> plain]

Observations == [t \in Threads |-> [i \in 1..Len(Explicits) |-> Expect(stack'[t], Explicits[i])]]
Log(a) == hist' = IF Gen THEN Append(hist, [act |-> a, obs |-> Observations]) ELSE hist

Enter(t, f) ==
  /\ Len(stack[t]) < MaxDepth
  /\ stack' = [stack EXCEPT ![t] = Append(@, f)] /\ loose' = [loose EXCEPT ![t] = Append(@, FALSE)]
  /\ Log([op |-> "enter", t |-> t, f |-> f])
Install(t, f) ==        \* the same configuration object used as a plain statement inside a with block of this thread
  /\ Len(stack[t]) < MaxDepth /\ \E k \in 1..Len(loose[t]) : ~loose[t][k]
  /\ stack' = [stack EXCEPT ![t] = Append(@, f)] /\ loose' = [loose EXCEPT ![t] = Append(@, TRUE)]
  /\ Log([op |-> "install", t |-> t, f |-> f])
FailEnter(t, f) ==      \* a context whose construction raises (e.g. an unknown backend name): nothing it carries may take effect
  /\ Len(stack[t]) < MaxDepth
  /\ UNCHANGED <<stack, loose>>
  /\ Log([op |-> "fail_enter", t |-> t, f |-> f])
\* innermost with-entered configuration of thread t (0 if none)
TopWith(t) == IF \E k \in 1..Len(loose[t]) : ~loose[t][k] THEN CHOOSE k \in 1..Len(loose[t]) : ~loose[t][k] /\ \A j \in (k + 1)..Len(loose[t]) : loose[t][j] ELSE 0
Exit(t, how) ==
  /\ TopWith(t) # 0
  /\ stack' = [stack EXCEPT ![t] = SubSeq(@, 1, TopWith(t) - 1)] /\ loose' = [loose EXCEPT ![t] = SubSeq(@, 1, TopWith(t) - 1)]
  /\ Log([op |-> "exit", t |-> t, how |-> how])

Next == /\ (~Gen \/ Len(hist) < MaxLen)
        /\ \E t \in Threads : (\E f \in Frames : Enter(t, f) \/ (Gen /\ FailEnter(t, f)) \/ (Loose /\ Install(t, f))) \/ (\E how \in {"return", "exception"} : Exit(t, how))
Spec == Init /\ [][Next]_vars

\* --- properties of the specification itself
\* isolation: what a thread observes depends on its own stack only (holds by construction: checked as an action property)
Isolated == [][\A t \in Threads : stack'[t] = stack[t] => \A i \in 1..Len(Explicits) : Expect(stack'[t], Explicits[i]) = Expect(stack[t], Explicits[i])]_vars
\* restoration: after an exit the thread observes what it observed before the matching enter
Restored == [][\A t \in Threads, f \in Frames : Enter(t, f) => SubSeq(stack'[t], 1, Len(stack'[t]) - 1) = stack[t]]_vars
\* ... also when configurations were installed without a with block in between: an exit brings back exactly what was active when
\* the matching with block was entered
RestoredAtExit == [][\A t \in Threads : (TopWith(t) # 0 /\ Len(stack'[t]) < Len(stack[t])) => stack'[t] = SubSeq(stack[t], 1, TopWith(t) - 1)]_vars
\* sharedmem is never satisfied by a process backend; explicit backend wins over prefer
SharedMemIsThreads ==
  \A t \in Threads, i \in 1..Len(Explicits) :
     LET e == Explicits[i] x == Expect(stack[t], e) IN (x.kind = "ok" /\ Resolve(stack[t], e, "rq") = "sharedmem") => x.backend = "thr"
ExplicitBackendWins ==
  \A t \in Threads, i \in 1..Len(Explicits) :
     LET e == Explicits[i] x == Expect(stack[t], e) IN (x.kind = "ok" /\ e.b # "U") => x.backend = Eff(e.b)

\* a hint never makes the construction fail: only the inconsistent pair prefer='processes' + require='sharedmem' and an explicit
\* process backend under require='sharedmem' are errors
PreferIsAHint ==
  \A t \in Threads, i \in 1..Len(Explicits) :
     LET e == Explicits[i] x == Expect(stack[t], e) IN
       x.kind # "ok" => (Resolve(stack[t], e, "rq") = "sharedmem" /\ (Resolve(stack[t], e, "pf") = "processes" \/ Eff(e.b) = "proc"))

Emit == (Gen /\ Len(hist) = MaxLen) => PrintT(ToJson(hist))
View == <<stack, loose>>
=============================================================================
