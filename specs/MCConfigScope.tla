---- MODULE MCConfigScope ----
(* Record-valued constants for ConfigScope configurations (cfg files cannot spell records). *)
EXTENDS ConfigScope
U == [b |-> "U", nj |-> "U", vb |-> "U", mx |-> "U", mm |-> "U", tf |-> "U", pf |-> "U", rq |-> "U"]
F(k, v) == [U EXCEPT ![k] = v]
FramesA == {F("nj", "2"), F("b", "thr"), [U EXCEPT !.b = "proc", !.nj = "3"], F("mx", "None"), [U EXCEPT !.mx = "10M", !.vb = "20"],
            F("pf", "threads"), F("rq", "sharedmem"), [U EXCEPT !.mm = "None", !.tf = "/tmp/x"], F("pf", "processes"), F("vb", "5")}
FramesB == {F("nj", "2"), F("b", "thr"), F("mx", "None"), F("rq", "sharedmem"), [U EXCEPT !.pf = "threads", !.vb = "20"], [U EXCEPT !.b = "proc", !.mm = "c"]}
FramesC == {F("nj", "2"), F("pf", "processes"), F("pf", "threads"), F("rq", "sharedmem"), [U EXCEPT !.b = "proc", !.nj = "3"], F("b", "thr")}
ExplicitsA == <<U, F("nj", "4"), F("b", "thr"), F("b", "proc"), F("pf", "threads"), F("rq", "sharedmem"), F("mx", "5M"),
                [U EXCEPT !.pf = "processes", !.vb = "50"], [U EXCEPT !.mm = "w+", !.tf = "/tmp/y"]>>
====
