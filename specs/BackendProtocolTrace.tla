------------------------ MODULE BackendProtocolTrace ------------------------
(***************************************************************************)
(* Recorded backend life-cycle traces of the real joblib.Parallel (L1      *)
(* driver, `blog`) must be behaviours of BackendProtocol: every logged     *)
(* event is the visible step of one action (bound through `last`);         *)
(* Finalise and ExitBegin are not logged - TLC finds them.  A rejection is *)
(* DRIFT between parallel.py and the design model (never an alarm itself). *)
(***************************************************************************)
EXTENDS BackendProtocol, Json, IOUtils, TLCExt
Traces == JsonDeserialize(IOEnv.TRACE_FILE)
NT == Len(Traces)
ASSUME \A i \in 1..NT : TLCSet(i, 0)
VARIABLES t, l
tvars == <<vars, t, l>>
TInit == Init /\ t \in 1..NT /\ l = 1
More == l <= Len(Traces[t])
Ev == Traces[t][l]
Same(a, b) == /\ a.ev = b.ev
              /\ (a.ev = "Abort" => a.ready = b.ready)
              /\ (a.ev = "End" => a.kind = b.kind)
              /\ (a.ev = "Call" => a.gen = b.gen)
Visible == \/ Enter \/ CallRejected \/ Done \/ Step \/ Submit
           \/ \E g \in BOOLEAN : Call(g) \/ CallFailsAtOnce(g)
           \/ \E k \in Kinds : End(k)
TNext == \/ /\ More /\ Visible /\ Same(last', Ev) /\ l' = l + 1 /\ t' = t
         \/ /\ More /\ (ExitBegin \/ SetupFails \/ \E e \in BOOLEAN : Finalise(e)) /\ l' = l /\ t' = t
TSpec == TInit /\ [][TNext]_tvars
Progress == IF TLCGet(t) < l THEN TLCSet(t, l) ELSE TRUE
Accepted ==
  LET bad == {i \in 1..NT : TLCGet(i) # Len(Traces[i]) + 1}
  IN IF bad = {} THEN TRUE
     ELSE PrintT(<<"REJECTED", {<<i, TLCGet(i), "design-drift">> : i \in bad}>>) /\ FALSE
=============================================================================
