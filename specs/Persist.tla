------------------------------- MODULE Persist -------------------------------
(***************************************************************************)
(* joblib.dump / joblib.load configuration lattice (C03): which writer a   *)
(* (compress argument, target kind, file extension) selects, and the       *)
(* content-sniffing rule of load.  TLC enumerates every configuration with *)
(* the outcome the decision table dictates; each state becomes round-trip  *)
(* tests of the real dump/load (path, renamed to every other extension,    *)
(* open file, unbuffered file, in-memory buffer).                          *)
(* Checked on the specification: whatever the configuration, the method    *)
(* written is the method load detects from the content (DetectConsistent), *)
(* and an extension never overrides an explicit (method, level) tuple.     *)
(***************************************************************************)
EXTENDS Integers, Sequences, FiniteSets, TLC, Json

Methods == {"zlib", "gzip", "bz2", "lzma", "xz"}
Ext(m) == CASE m = "zlib" -> ".z" [] m = "gzip" -> ".gz" [] m = "bz2" -> ".bz2" [] m = "lzma" -> ".lzma" [] m = "xz" -> ".xz"
Exts == {"", ".pkl"} \cup {Ext(m) : m \in Methods}
Magic(m) == CASE m = "zlib" -> "x" [] m = "gzip" -> "1f8b" [] m = "bz2" -> "BZ" [] m = "lzma" -> "5d00" [] m = "xz" -> "fd377a585a" [] m = "none" -> "80"
Targets == {"path", "fileobj"}

\* compress arguments; level -1 stands for None (the compressor's default), 10 for an out-of-range level
Args == [t : {"bool"}, b : BOOLEAN]
        \cup [t : {"int"}, l : 0..10]
        \cup [t : {"str"}, m : Methods \cup {"nope"}]
        \cup [t : {"tuple"}, m : Methods \cup {"nope"}, l : {-1} \cup 0..10]

VARIABLES arg, target, ext
vars == <<arg, target, ext>>

\* step 1: (method, level, explicit tuple?)  -- level: -1 None, -2 False (no compression, equals 0)
M0 == CASE arg.t = "bool" -> <<"zlib", IF arg.b THEN -1 ELSE -2, FALSE>>
        [] arg.t = "int" -> <<"zlib", arg.l, FALSE>>
        [] arg.t = "str" -> <<arg.m, -1, TRUE>>
        [] arg.t = "tuple" -> <<arg.m, arg.l, TRUE>>
LevelOK(l) == l \in {-1, -2} \cup 0..9
IsZero(l) == l \in {0, -2}
ExtMethod == IF \E m \in Methods : ext = Ext(m) THEN CHOOSE m \in Methods : ext = Ext(m) ELSE "none"

Outcome ==
  LET m0 == M0[1] l0 == M0[2] tup == M0[3] IN
  IF ~LevelOK(l0) \/ m0 \notin Methods THEN [kind |-> "ValueError"]
  ELSE IF target = "path" /\ ~tup
       THEN \* the extension decides the method; a level of 0/False with a compression extension means the default level
            LET m1 == ExtMethod
                l1 == IF m1 # "none" /\ IsZero(l0) THEN -1 ELSE l0
            IN IF IsZero(l1) THEN [kind |-> "ok", method |-> "none", level |-> 0]
               ELSE [kind |-> "ok", method |-> IF m1 = "none" THEN "zlib" ELSE m1, level |-> l1]
       ELSE IF IsZero(l0) THEN [kind |-> "ok", method |-> "none", level |-> 0]
            ELSE [kind |-> "ok", method |-> m0, level |-> l0]

\* load: the method is recognised from the first bytes only
Detect(prefix) == IF \E m \in Methods : prefix = Magic(m) THEN CHOOSE m \in Methods : prefix = Magic(m) ELSE "none"

Init == arg \in Args /\ target \in Targets /\ ext \in Exts
Next == UNCHANGED vars

DetectConsistent == Outcome.kind = "ok" => Detect(Magic(Outcome.method)) = Outcome.method
TupleWins == (arg.t = "tuple" /\ Outcome.kind = "ok" /\ ~IsZero(arg.l)) => Outcome.method = arg.m
MagicsDistinct == \A a, b \in Methods \cup {"none"} : a # b => Magic(a) # Magic(b)

Emit == PrintT(ToJson([arg |-> arg, target |-> target, ext |-> ext, out |-> Outcome, magic |-> IF Outcome.kind = "ok" THEN Magic(Outcome.method) ELSE ""]))
=============================================================================
