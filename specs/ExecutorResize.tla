--------------------------- MODULE ExecutorResize ---------------------------
(***************************************************************************)
(* The reusable loky executor over a HISTORY of Parallel calls with        *)
(* different n_jobs (C15 over histories; complements LokyExecutor, which   *)
(* keeps the size fixed and kills workers).                                *)
(*                                                                         *)
(* get_reusable_executor(max_workers = n) returns the live executor and    *)
(* resizes it (_ReusablePoolExecutor._resize):                             *)
(*   Mark     under the process-management lock: count the live workers,   *)
(*            set _max_workers = n, put one None sentinel into the call    *)
(*            queue per surplus worker                                     *)
(*   Shrunk   wait until at most n worker processes are left               *)
(*   Adjust   _adjust_process_count: spawn up to n                         *)
(* then the call submits its tasks (FIFO call queue shared with the        *)
(* sentinels) and waits for the results.  Idle workers may leave on their  *)
(* own (idle timeout, Timeouts times); a submit re-spawns up to            *)
(* _max_workers.                                                           *)
(*                                                                         *)
(*   Bound       tasks running at the same time <= n_jobs of the CURRENT   *)
(*               call, whatever the sizes of the earlier calls             *)
(*   SizeAtWork  while tasks are being submitted / awaited there are at    *)
(*               most n_jobs worker processes                              *)
(*   Ends        every call ends (liveness)                                *)
(* A call may submit nothing (empty input, a bare `with Parallel(...)`      *)
(* block): the executor then exists without its manager thread and without *)
(* workers, and the next resize only records the new size (RecordEarly =    *)
(* TRUE, current; FALSE = the early return forgets it: sensitivity).        *)
(* StopSurplus = FALSE (sensitivity): a resize that lowers _max_workers    *)
(* without stopping the surplus workers lets more than n_jobs tasks run.   *)
(* WaitShrunk = FALSE (sensitivity): not waiting for the surplus workers   *)
(* to be gone breaks SizeAtWork only (the FIFO queue still protects Bound).*)
(***************************************************************************)
EXTENDS Integers, Sequences, FiniteSets, TLC, Json

CONSTANTS MaxW,         \* largest n_jobs, e.g. 3
          NT,           \* tasks per call
          Calls,        \* length of the history
          Timeouts,     \* idle workers leaving on their own (environment)
          StopSurplus, WaitShrunk, RecordEarly,
          Gen           \* TRUE: print the histories of n_jobs values (replayed on the real backends)

W == 1..MaxW
VARIABLES ws,        \* [W -> "absent" | "idle" | "running"]
          queue,     \* call queue: sequence of "T" (task) / "N" (sentinel)
          maxw,      \* executor._max_workers (0 = no executor yet)
          want,      \* n_jobs of the current call
          pc,        \* "idle" | "mark" | "shrunk" | "adjust" | "submit" | "retrieve"
          mgr,       \* the executor's manager thread exists (started by the first submit)
          nt,        \* tasks of the current call (0: a call that submits nothing)
          call, sub, done, touts, hist
vars == <<ws, queue, maxw, want, pc, mgr, nt, call, sub, done, touts, hist>>

Live == {i \in W : ws[i] # "absent"}
Running == {i \in W : ws[i] = "running"}

Init == /\ ws = [i \in W |-> "absent"] /\ queue = <<>> /\ maxw = 0 /\ want = 0 /\ pc = "idle"
        /\ mgr = FALSE /\ nt = 0 /\ call = 0 /\ sub = 0 /\ done = 0 /\ touts = 0 /\ hist = <<>>

\* up to k absent slots become idle workers
SpawnUpTo(k) == LET need == k - Cardinality(Live)
                    absent == {i \in W : ws[i] = "absent"}
                IN IF need <= 0 THEN ws
                   ELSE LET pick == CHOOSE S \in SUBSET absent : Cardinality(S) = (IF need <= Cardinality(absent) THEN need ELSE Cardinality(absent))
                        IN [i \in W |-> IF i \in pick THEN "idle" ELSE ws[i]]

Begin(n, k) ==
  /\ pc = "idle" /\ call < Calls
  /\ call' = call + 1 /\ want' = n /\ nt' = k /\ sub' = 0 /\ done' = 0 /\ hist' = Append(hist, <<n, k>>)
  /\ IF maxw = 0 \/ maxw = n
     THEN /\ maxw' = n /\ pc' = "submit" /\ UNCHANGED <<ws, queue, mgr>>     \* new executor, or same size: nothing to resize
     ELSE \/ /\ mgr /\ pc' = "mark" /\ UNCHANGED <<maxw, ws, queue, mgr>>     \* same executor arguments: resize
          \* ... of an executor that never started its manager thread: no worker exists, the new size is just recorded
          \/ /\ ~mgr /\ pc' = "submit" /\ maxw' = (IF RecordEarly THEN n ELSE maxw) /\ UNCHANGED <<ws, queue, mgr>>
          \* joblib derives the workers' environment (OMP_NUM_THREADS = cpus // n_jobs ...) from n_jobs unless
          \* inner_max_num_threads or the variables themselves are set: other arguments -> the executor is shut down
          \* (its workers exit) and replaced by a new one of size n
          \/ /\ ws' = [i \in W |-> "absent"] /\ queue' = <<>> /\ maxw' = n /\ pc' = "submit" /\ mgr' = FALSE
  /\ UNCHANGED touts

Mark ==
  /\ pc = "mark"
  /\ maxw' = want
  /\ LET surplus == Cardinality(Live) - want
     IN queue' = IF StopSurplus /\ surplus > 0 THEN queue \o [k \in 1..surplus |-> "N"] ELSE queue
  /\ pc' = "shrunk"
  /\ UNCHANGED <<ws, want, mgr, nt, call, sub, done, touts, hist>>

Shrunk ==
  /\ pc = "shrunk"
  /\ (WaitShrunk /\ StopSurplus) => Cardinality(Live) <= want
  /\ pc' = "adjust"
  /\ UNCHANGED <<ws, queue, maxw, want, mgr, nt, call, sub, done, touts, hist>>

Adjust ==
  /\ pc = "adjust"
  /\ ws' = SpawnUpTo(maxw) /\ pc' = "submit"
  /\ UNCHANGED <<queue, maxw, want, mgr, nt, call, sub, done, touts, hist>>

Submit ==         \* one task; every submit makes sure the executor has its workers (_ensure_executor_running)
  /\ pc = "submit" /\ sub < nt
  /\ queue' = Append(queue, "T") /\ sub' = sub + 1
  /\ ws' = SpawnUpTo(maxw) /\ mgr' = TRUE
  /\ UNCHANGED <<maxw, want, pc, nt, call, done, touts, hist>>
Submitted ==
  /\ pc = "submit" /\ sub = nt /\ pc' = "retrieve"
  /\ UNCHANGED <<ws, queue, maxw, want, mgr, nt, call, sub, done, touts, hist>>
Retrieve ==
  /\ pc = "retrieve" /\ done = nt /\ pc' = "idle"
  /\ UNCHANGED <<ws, queue, maxw, want, mgr, nt, call, sub, done, touts, hist>>

Take(i) ==
  /\ ws[i] = "idle" /\ queue # <<>>
  /\ ws' = [ws EXCEPT ![i] = IF Head(queue) = "N" THEN "absent" ELSE "running"]
  /\ queue' = Tail(queue)
  /\ UNCHANGED <<maxw, want, pc, mgr, nt, call, sub, done, touts, hist>>
Finish(i) ==
  /\ ws[i] = "running"
  /\ ws' = [ws EXCEPT ![i] = "idle"] /\ done' = done + 1
  /\ UNCHANGED <<queue, maxw, want, pc, mgr, nt, call, sub, touts, hist>>
IdleTimeout(i) ==
  /\ touts < Timeouts /\ ws[i] = "idle" /\ pc = "idle"
  /\ ws' = [ws EXCEPT ![i] = "absent"] /\ touts' = touts + 1
  /\ UNCHANGED <<queue, maxw, want, pc, mgr, nt, call, sub, done, hist>>

Next == \/ \E n \in W, k \in {0, NT} : Begin(n, k)
        \/ Mark \/ Shrunk \/ Adjust \/ Submit \/ Submitted \/ Retrieve
        \/ \E i \in W : Take(i) \/ Finish(i) \/ IdleTimeout(i)
Spec == Init /\ [][Next]_vars /\ WF_vars(Mark \/ Shrunk \/ Adjust \/ Submit \/ Submitted \/ Retrieve)
        /\ \A i \in W : WF_vars(Take(i)) /\ WF_vars(Finish(i))

Bound == Cardinality(Running) <= want
SizeAtWork == pc \in {"submit", "retrieve"} => Cardinality(Live) <= want
NoLostSentinel == pc = "idle" => \A k \in 1..Len(queue) : queue[k] # "N"     \* a sentinel left behind would stop a worker of a later call
Ends == []<>(pc = "idle")

Emit == (Gen /\ call = Calls /\ pc = "submit" /\ sub = 0) => PrintT(ToJson(hist))
View == <<ws, queue, maxw, want, pc, mgr, nt, call, sub, done, touts>>
=============================================================================
