------------------------------- MODULE Hasher -------------------------------
(***************************************************************************)
(* The universe of values joblib.hash is judged on (C08) and what "the     *)
(* same value" means.  A value is a term                                   *)
(*    <<"leaf", id>> | <<"list", seq>> | <<"tuple", seq>>                  *)
(*    | <<"set", S>> | <<"fset", S>> | <<"dict", set of <<key, value>>>>   *)
(* where the set / frozenset / dict parts are TLA+ sets: two Python        *)
(* objects denote the same value iff they denote the same term, whatever   *)
(* the order in which their unordered parts were built, and two different  *)
(* terms are different values (different content OR different type: the    *)
(* leaves i1, f1, True are three terms although Python says 1 == 1.0 ==    *)
(* True).  C08 = the digest is a function of the term (deterministic,      *)
(* order-insensitive) and injective on terms (type-discriminating).        *)
(* TLC enumerates the bounded universe; each term is built in Python in    *)
(* several construction orders and hashed in several interpreters.         *)
(***************************************************************************)
EXTENDS Integers, Sequences, FiniteSets, TLC, Json

CONSTANTS Leaves0,   \* leaf ids used at depth <= 1
          Leaves1,   \* (smaller) leaf set used below depth-2 containers
          MaxElems

\* Python equality classes of the leaves (a set / dict cannot hold two equal elements / keys)
EqClass(l) == CASE l \in {"True", "i1", "f1"} -> "one" [] l \in {"False", "i0", "f0", "fm0"} -> "zero" [] OTHER -> l
Leaf(l) == <<"leaf", l>>

Seqs(S) == UNION {[1..n -> S] : n \in 0..MaxElems}
\* python-equality key of a hashable term (leaves by class; tuples / frozensets structurally)
RECURSIVE EqKey(_)
EqKey(t) == IF t[1] = "leaf" THEN <<"leaf", EqClass(t[2])>>
            ELSE IF t[1] = "tuple" THEN <<"tuple", [i \in DOMAIN t[2] |-> EqKey(t[2][i])]>>
            ELSE <<"fset", {EqKey(x) : x \in t[2]}>>
Distinct(S) == \A a, b \in S : a # b => EqKey(a) # EqKey(b)
SubsetsUpTo(S) == {T \in SUBSET S : Cardinality(T) <= MaxElems /\ Distinct(T)}

Containers(Elems, Hashables, Vals) ==
       {<<"list", s>> : s \in Seqs(Elems)} \cup {<<"tuple", s>> : s \in Seqs(Elems)}
  \cup {<<"set", T>> : T \in SubsetsUpTo(Hashables)} \cup {<<"fset", T>> : T \in SubsetsUpTo(Hashables)}
  \cup UNION {{<<"dict", {<<k, f[k]>> : k \in T}>> : f \in [T -> Vals]} : T \in SubsetsUpTo(Hashables)}

IsHashable(t) == t[1] \in {"leaf", "fset"} \/ (t[1] = "tuple" /\ \A i \in DOMAIN t[2] : t[2][i][1] \in {"leaf"})

L0 == {Leaf(l) : l \in Leaves0}
L1 == {Leaf(l) : l \in Leaves1}
D1 == Containers(L0, L0, {Leaf(l) : l \in {"i1", "sa", "None"}})            \* depth 1 over all leaves
D1small == Containers(L1, L1, L1)                                            \* depth 1 over the small leaf set
E2 == L1 \cup D1small
H2 == {t \in E2 : IsHashable(t)}
D2 == Containers(E2, H2, {Leaf("i1"), <<"list", <<Leaf("sa")>>>>})           \* depth 2

\* depth 3, targeted: unordered containers whose elements / keys are tuples MIXING frozensets, nested tuples and leaves
\* (only partially ordered: sorting them is not canonical, the order-insensitive fallback must be taken)
B3 == {Leaf("i1"), Leaf("sa"), <<"fset", {Leaf("i1")}>>, <<"fset", {Leaf("sa")}>>, <<"fset", {Leaf("i1"), Leaf("sa")}>>,
       <<"tuple", <<Leaf("i1")>>>>, <<"tuple", <<Leaf("sa")>>>>,
       <<"tuple", <<<<"fset", {Leaf("i1")}>>>>>>, <<"tuple", <<<<"fset", {Leaf("sa")}>>>>>>}      \* a frozenset one tuple level further down
K3 == {<<"tuple", s>> : s \in {q \in Seqs(B3) : Len(q) >= 1}}
P3 == {{a} : a \in K3} \cup {{a, b} : a, b \in K3}        \* (SUBSET K3 is far too large to filter)
S3 == {T \in P3 : Distinct(T)}
D3 == {<<"set", T>> : T \in S3} \cup {<<"fset", T>> : T \in S3}
      \cup {<<"dict", {<<k, Leaf("i1")>> : k \in T}>> : T \in S3}

Universe == L0 \cup D1 \cup D2 \cup D3

VARIABLE v
Init == v \in Universe
Next == UNCHANGED v
Emit == PrintT(ToJson(v))
=============================================================================
