------------------------------ MODULE Eviction ------------------------------
(***************************************************************************)
(* Declarative specification of Memory.reduce_size (C18).                  *)
(* A store is a finite set of items with a size and a last-access time     *)
(* (ties allowed, zero sizes allowed).  Limits: total bytes, number of     *)
(* items, maximal age - each possibly absent (None == -1).                 *)
(* The evicted set must be the SHORTEST least-recently-used prefix whose    *)
(* removal makes the survivors meet every limit.  With tied access times   *)
(* any order among the tied items is a legitimate LRU order, hence a set   *)
(* of valid answers.  TLC enumerates every (store, limits) of the bounded  *)
(* universe and prints the valid answers; each state becomes one test of   *)
(* the real reduce_size on a real cache directory.                         *)
(***************************************************************************)
EXTENDS Integers, Sequences, FiniteSets, TLC, Json

CONSTANTS N, Sizes, Times, Now, Exhaustive
None == -1

Items == 1..N
VARIABLES size, atime, nitems, bytesLimit, itemsLimit, ageLimit

Present == 1..nitems
Sum(S) == LET RECURSIVE F(_)
              F(T) == IF T = {} THEN 0 ELSE LET x == CHOOSE x \in T : TRUE IN size[x] + F(T \ {x})
          IN F(S)

\* an item is expired when it was last accessed at least ageLimit ago
Expired(i) == ageLimit # None /\ atime[i] <= Now - ageLimit

Meets(S) ==  \* the survivors S satisfy every limit
  /\ bytesLimit = None \/ Sum(S) <= bytesLimit
  /\ itemsLimit = None \/ Cardinality(S) <= itemsLimit
  /\ \A i \in S : ~Expired(i)

\* LRU orders: the linearisations of the items consistent with the access times (ties in any order)
Perms == {p \in [1..nitems -> Present] : \A i, j \in 1..nitems : i # j => p[i] # p[j]}
LRUOrders == {p \in Perms : \A i, j \in 1..nitems : i < j => atime[p[i]] <= atime[p[j]]}
Prefix(p, k) == {p[i] : i \in 1..k}

\* E is the shortest prefix of some LRU order whose removal makes the survivors meet every limit
Valid(E) ==
  \E p \in LRUOrders : \E k \in 0..nitems :
     /\ E = Prefix(p, k) /\ Meets(Present \ E)
     /\ \A k2 \in 0..(k - 1) : ~Meets(Present \ Prefix(p, k2))

ValidEvictions == {E \in SUBSET Present : Valid(E)}

\* canonical stores only: items listed by non-decreasing access time, then size (a store is a multiset)
Canon == \A i \in 1..(nitems - 1) : atime[i] < atime[i + 1] \/ (atime[i] = atime[i + 1] /\ size[i] <= size[i + 1])

Init ==
  /\ nitems \in 0..N
  /\ size \in [Items -> Sizes] /\ atime \in [Items -> Times]
  /\ \A i \in Items : i > nitems => (size[i] = 0 /\ atime[i] = 0)
  /\ Canon
  /\ bytesLimit \in {None} \cup 0..(N * 2)
  /\ itemsLimit \in {None} \cup 0..N
  /\ ageLimit \in {None} \cup 0..(Now)
Next == UNCHANGED <<size, atime, nitems, bytesLimit, itemsLimit, ageLimit>>

\* C18 on the specification itself: there is always at least one valid answer; every valid answer leaves a store that
\* meets the limits; nothing is evicted when the store already meets them.
\* (With tied access times two valid answers need not have the same cardinality: sizes <<1, 1, 2>>, all tied,
\*  bytes limit 2: both {3} and {1, 2} are shortest LRU prefixes - TLC refuted the conjecture "same count".)
NonEmpty == ValidEvictions # {}
NothingIfFine == Meets(Present) => ValidEvictions = {{}}

Emit == PrintT(ToJson([n |-> nitems, size |-> [i \in Present |-> size[i]], atime |-> [i \in Present |-> atime[i]],
                       bytes |-> bytesLimit, items |-> itemsLimit, age |-> ageLimit,
                       valid |-> ValidEvictions]))
=============================================================================
