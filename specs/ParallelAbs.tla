---------------------------- MODULE ParallelAbs ----------------------------
(***************************************************************************)
(* The contract of ONE joblib.Parallel object, written over the events a   *)
(* user (or a backend author) can observe: items taken from the input,     *)
(* batches handed to the backend, task starts/ends, completion callbacks,  *)
(* polls of the waiting caller, results yielded, outcome of the call.      *)
(*                                                                         *)
(* Properties C01 C04 C09 C15(bound) C16 are the *clauses* below: every    *)
(* clause is a conjunct of Why(e), which returns "ok" or the name of the   *)
(* first clause that event e would break in the current state.  An event   *)
(* is enabled iff Why(e) = "ok".  The same operator therefore (a) defines  *)
(* the abstract state machine, (b) judges recorded traces of the real code *)
(* (ParallelTrace.tla) and (c) names the broken clause on a rejection.     *)
(*                                                                         *)
(* Events are records with a field ev; task/call numbers are small ints.   *)
(***************************************************************************)
EXTENDS Integers, Sequences, FiniteSets

VARIABLES
  call,       \* tag of the current call (-1 before the first one)
  conf,       \* configuration of the current call (record, see CallStart)
  phase,      \* "idle" | "running" | "ended"
  started,    \* the caller's initial dispatch loop is over
  pulled,     \* number of items taken from the input in this call
  pulling,    \* id of the thread currently inside the input iterator, 0 = none
  iterRaised, \* the input iterable raised
  submitted,  \* set of task indices handed to the backend in this call
  batches,    \* set of <<lo, hi>> handed to the backend in this call
  preB,       \* number of batches submitted before `started`
  doneB,      \* sequence of <<lo, hi>>: batches whose successful callback returned, in order
  startedT, endedT, okT, failedT,   \* sets of task indices of this call
  out,        \* sequence of task indices yielded to the consumer
  stopped,    \* a failing callback has returned, or the consumer entered close()
  closing,    \* the consumer entered close()
  slices,     \* slices of the input begun after `stopped`
  inSlice,    \* the last event was a pull (same slice continues)
  want,       \* the consumer is inside next()
  polls,      \* polls of the caller in this call (upper bound of any waiting time)
  availSeen,  \* the next result was already available at the previous Next/Poll of the consumer's wait
  quiet,      \* polls since the last completion callback / result (lower bound of the current wait)
  sinceY,     \* polls since the last result was handed to the consumer (upper bound of the current wait for the next one)
  d9          \* look-ahead excess happened during the initial dispatch loop (finding D9)

avars == <<call, conf, phase, started, pulled, pulling, iterRaised, submitted, batches, preB, doneB,
           startedT, endedT, okT, failedT, out, stopped, closing, slices, inSlice, want, polls, availSeen, quiet, d9, sinceY>>

NoConf == [n |-> 0, mode |-> "list", nj |-> 1, maxb |-> 1, pre |-> 0, bound |-> 0, slack |-> 1, ticks |-> -1,
           serial |-> TRUE, legacy |-> FALSE]

AInit ==
  /\ call = -1 /\ conf = NoConf /\ phase = "idle" /\ started = FALSE /\ pulled = 0 /\ pulling = 0
  /\ iterRaised = FALSE /\ submitted = {} /\ batches = {} /\ preB = 0 /\ doneB = <<>>
  /\ startedT = {} /\ endedT = {} /\ okT = {} /\ failedT = {} /\ out = <<>>
  /\ stopped = FALSE /\ closing = FALSE /\ slices = 0 /\ inSlice = FALSE /\ want = FALSE
  /\ polls = 0 /\ quiet = 0 /\ availSeen = FALSE /\ d9 = FALSE /\ sinceY = 0

Range(lo, hi) == lo..(hi - 1)
Ordered == conf.mode # "unord"
IsGen == conf.mode # "list"
Yielded == {out[j] : j \in 1..Len(out)}
InFlight == {b \in batches : ~(Range(b[1], b[2]) \subseteq endedT)}
SetMin(S) == CHOOSE x \in S : \A y \in S : x <= y

\* first batch, in completion order, that still has un-yielded results
PendingDone == {j \in 1..Len(doneB) : ~(Range(doneB[j][1], doneB[j][2]) \subseteq Yielded)}
HeadAvailable ==
  IF Ordered THEN \E j \in 1..Len(doneB) : Len(out) \in Range(doneB[j][1], doneB[j][2])
  ELSE PendingDone # {}
NextUnordered ==
  LET j == SetMin(PendingDone)
  IN SetMin(Range(doneB[j][1], doneB[j][2]) \ Yielded)

\* completion order (serial callbacks): a result whose callback has returned must be the oldest pending one;
\* a result whose callback is still running (registered, CbEnd not yet logged) must not overtake a pending one
UnorderedBad(i) ==
  IF \E j \in 1..Len(doneB) : i \in Range(doneB[j][1], doneB[j][2])
  THEN i # NextUnordered ELSE PendingDone # {}

Live(c) == c = call /\ phase = "running"

(* Look-ahead allowed once the caller's initial dispatch loop is over: the bound fixed by the configuration,   *)
(* or - when more batches than that were put in flight during the initial loop (finding D9, flagged by d9) -   *)
(* what was in flight then plus one slice.  Either way it does not depend on the input length.                 *)
LookaheadLimit ==
  LET rel == preB * conf.maxb + conf.nj * conf.maxb
  IN IF rel > conf.bound THEN rel ELSE conf.bound

(***************************************************************************)
(* Why(e): "ok" or the first broken clause.                                *)
(***************************************************************************)
Why(e) ==
  CASE e.ev = "CallStart" ->
         IF phase = "running" THEN "C16.OverlappingCallNotRejected"
         ELSE IF e.c # call + 1 THEN "harness.CallNumbering" ELSE "ok"
    [] e.ev = "Rejected" ->
         IF phase # "running" THEN "C16.SpuriousRuntimeError" ELSE "ok"
    [] e.ev = "Overlap" ->     \* a second call was ACCEPTED while the output generator is alive
         IF phase = "running" /\ ~(pulled = conf.n /\ submitted = 0..(conf.n - 1) /\ endedT = submitted
                                   /\ InFlight = {})
         THEN "C16.OverlappingCallNotRejected" ELSE "ok"
    [] e.ev = "OverlapYield" ->   \* the accepted second call (its input is empty) produced a result
         "C16.OverlappingCallMixesRuns"
    [] e.ev = "PullIn" ->
         IF ~Live(e.c) THEN "C09.PullOutsideCall"
         ELSE IF pulling # 0 THEN "C09.TwoThreadsInInput"
         ELSE IF stopped /\ ~inSlice /\ slices >= conf.slack THEN "C09.PullAfterStop"
         ELSE IF started /\ conf.pre # 0 /\ pulled - Cardinality(endedT) >= LookaheadLimit
              THEN "C09.Lookahead"
         \* before anything has completed only the caller's initial loop takes items: exactly the pre-dispatched amount
         ELSE IF ~started /\ endedT = {} /\ conf.pre # 0 /\ pulled >= conf.pre
              THEN "C09.InitialDispatchBeyondPreDispatch"
         ELSE "ok"
    [] e.ev = "Pull" ->
         IF ~Live(e.c) THEN "C09.PullOutsideCall"
         ELSE IF pulling # e.th THEN "C09.TwoThreadsInInput"
         ELSE IF e.i # pulled \/ e.i >= conf.n THEN "harness.PullNumbering" ELSE "ok"
    [] e.ev \in {"PullStop", "PullRaise"} ->
         IF ~Live(e.c) THEN "C09.PullOutsideCall"
         ELSE IF pulling # e.th THEN "C09.TwoThreadsInInput" ELSE "ok"
    [] e.ev = "Submit" ->
         IF e.c # call THEN "C04.CarryOverFromEarlierCall"
         ELSE IF phase # "running" THEN "C16.DispatchAfterEnd"
         ELSE IF ~(e.lo < e.hi /\ e.hi <= pulled) THEN "C01.SubmitOfUnpulledTask"
         ELSE IF Range(e.lo, e.hi) \cap submitted # {} THEN "C01.TaskSubmittedTwice"
         ELSE IF stopped \/ iterRaised THEN "C09.DispatchAfterStop"
         ELSE IF started /\ ~d9 /\ conf.pre # 0 /\ Cardinality(InFlight) >= (IF preB = 0 THEN 1 ELSE preB)   \* (sequential mode: nothing is dispatched before the first pull)
              THEN "C09.InFlightBatches"
         ELSE "ok"
    [] e.ev = "TStart" ->
         IF e.c # call THEN "ok"                           \* straggler of an earlier call
         ELSE IF e.i \notin submitted THEN "C01.RunOfUnsubmittedTask"
         ELSE IF e.i \in startedT THEN "C01.TaskRunTwice"
         ELSE IF Cardinality(startedT \ endedT) >= conf.nj THEN "C15.MoreThanNJobsRunning"
         ELSE "ok"
    [] e.ev = "TEnd" ->
         IF e.c # call THEN "ok"
         ELSE IF e.i \notin startedT \ endedT THEN "harness.TEndWithoutStart" ELSE "ok"
    [] e.ev = "CbEnd" ->
         IF e.c # call THEN "ok"
         \* (after a stop the backend also calls back for batches it cancelled or whose worker it killed)
         ELSE IF ~stopped /\ ~(Range(e.lo, e.hi) \subseteq endedT) THEN "harness.CallbackBeforeTaskEnd" ELSE "ok"
    [] e.ev = "Poll" ->
         IF phase # "running" THEN "harness.PollOutsideCall"
         ELSE IF IsGen /\ want /\ ~stopped /\ ~iterRaised /\ availSeen /\ HeadAvailable THEN "C16.NotPrompt"
         ELSE IF conf.ticks >= 0 /\ quiet >= conf.ticks + 3 THEN "C04.TimeoutNotRaised"
         ELSE "ok"
    [] e.ev = "Next" ->
         IF ~(IsGen /\ phase = "running" /\ ~want) THEN "harness.Next" ELSE "ok"
    [] e.ev = "Yield" ->
         IF e.c # call THEN "C04.ResultOfEarlierCall"
         ELSE IF phase # "running" THEN "C16.YieldAfterEnd"
         ELSE IF e.i \notin okT THEN "C01.ResultOfUnfinishedTask"
         ELSE IF e.i \in Yielded THEN "C01.ResultYieldedTwice"
         ELSE IF Ordered /\ e.i # Len(out) THEN "C01.OutOfOrder"
         ELSE IF ~Ordered /\ conf.serial /\ IsGen /\ UnorderedBad(e.i) THEN "C16.NotCompletionOrder"
         ELSE "ok"
    [] e.ev = "Close" ->
         IF ~(IsGen /\ phase = "running") THEN "harness.Close" ELSE "ok"
    [] e.ev = "End" ->
         IF phase # "running" THEN "harness.EndOutsideCall"
         ELSE IF e.kind = "returned" THEN
              (IF failedT # {} THEN "C04.TaskFailureSwallowed"
               ELSE IF iterRaised THEN "C04.InputErrorSwallowed"
               ELSE IF closing THEN "ok"
               ELSE IF pulled # conf.n THEN "C01.InputNotConsumed"
               ELSE IF Len(out) # conf.n THEN "C01.ResultsLost"
               ELSE "ok")
         ELSE IF e.kind = "raised_task" THEN
              (IF e.i \notin failedT THEN "C04.WrongException" ELSE "ok")
         ELSE IF e.kind = "raised_iter" THEN (IF ~iterRaised THEN "C04.WrongException" ELSE "ok")
         ELSE IF e.kind = "timeout" THEN
              \* (legitimate only if the caller has been waiting for its next result for at least the timeout)
              (IF conf.ticks < 0 \/ sinceY < conf.ticks THEN "C04.SpuriousTimeout" ELSE "ok")
         ELSE IF e.kind = "closed" THEN (IF ~closing THEN "harness.Closed" ELSE "ok")
         ELSE IF e.kind = "hang" THEN "C04.NoTermination"
         ELSE "C04.UnexpectedOutcome"
    [] OTHER -> "harness.UnknownEvent"

(***************************************************************************)
(* State update of an (enabled) event.                                     *)
(***************************************************************************)
Apply(e) ==
  CASE e.ev = "CallStart" ->
         /\ call' = e.c
         /\ conf' = [n |-> e.n, mode |-> e.mode, nj |-> e.nj, maxb |-> e.maxb, pre |-> e.pre, bound |-> e.bound,
                     slack |-> e.slack, ticks |-> e.ticks, serial |-> e.serial,
                     \* legacy backend protocol (supports_retrieve_callback = FALSE): completion callbacks only dispatch, the
                     \* outcome of a batch is known to joblib when the CALLER fetches it - a failed batch cannot stop dispatch earlier
                     legacy |-> IF "legacy" \in DOMAIN e THEN e.legacy ELSE FALSE]
         /\ phase' = "running" /\ started' = FALSE /\ pulled' = 0 /\ pulling' = 0
         /\ iterRaised' = FALSE /\ submitted' = {} /\ batches' = {} /\ preB' = 0 /\ doneB' = <<>>
         /\ startedT' = {} /\ endedT' = {} /\ okT' = {} /\ failedT' = {} /\ out' = <<>>
         /\ stopped' = FALSE /\ closing' = FALSE /\ slices' = 0 /\ inSlice' = FALSE
         /\ want' = FALSE /\ polls' = 0 /\ quiet' = 0 /\ availSeen' = FALSE /\ d9' = FALSE /\ sinceY' = 0
    [] e.ev \in {"Rejected", "Overlap"} -> UNCHANGED avars
    [] e.ev = "PullIn" ->
         /\ pulling' = e.th
         /\ slices' = IF stopped /\ ~inSlice THEN slices + 1 ELSE slices
         /\ d9' = (d9 \/ (~started /\ conf.pre # 0 /\ pulled - Cardinality(endedT) >= conf.bound))
         /\ inSlice' = TRUE
         /\ UNCHANGED <<call, conf, phase, started, pulled, iterRaised, submitted, batches, preB, doneB,
                        startedT, endedT, okT, failedT, out, stopped, closing, want, polls, quiet, availSeen, sinceY>>
    [] e.ev = "Pull" ->
         /\ pulled' = pulled + 1 /\ pulling' = 0 /\ inSlice' = TRUE
         /\ UNCHANGED <<call, conf, phase, started, iterRaised, submitted, batches, preB, doneB, startedT,
                        endedT, okT, failedT, out, stopped, closing, slices, want, polls, quiet, availSeen, d9, sinceY>>
    [] e.ev = "PullStop" ->
         /\ pulling' = 0 /\ inSlice' = TRUE
         /\ UNCHANGED <<call, conf, phase, started, pulled, iterRaised, submitted, batches, preB, doneB,
                        startedT, endedT, okT, failedT, out, stopped, closing, slices, want, polls, quiet, availSeen, d9, sinceY>>
    [] e.ev = "PullRaise" ->
         /\ pulling' = 0 /\ iterRaised' = TRUE /\ inSlice' = FALSE
         /\ UNCHANGED <<call, conf, phase, started, pulled, submitted, batches, preB, doneB, startedT,
                        endedT, okT, failedT, out, stopped, closing, slices, want, polls, quiet, availSeen, d9, sinceY>>
    [] e.ev = "Submit" ->
         /\ submitted' = submitted \cup Range(e.lo, e.hi)
         /\ batches' = batches \cup {<<e.lo, e.hi>>}
         /\ preB' = IF started THEN preB ELSE preB + 1
         /\ inSlice' = FALSE
         /\ UNCHANGED <<call, conf, phase, started, pulled, pulling, iterRaised, doneB, startedT, endedT,
                        okT, failedT, out, stopped, closing, slices, want, polls, quiet, availSeen, d9, sinceY>>
    [] e.ev = "TStart" ->
         /\ startedT' = IF e.c = call THEN startedT \cup {e.i} ELSE startedT
         /\ UNCHANGED <<call, conf, phase, started, pulled, pulling, iterRaised, submitted, batches, preB,
                        doneB, endedT, okT, failedT, out, stopped, closing, slices, inSlice, want, polls, quiet, availSeen, d9, sinceY>>
    [] e.ev = "TEnd" ->
         /\ endedT' = IF e.c = call THEN endedT \cup {e.i} ELSE endedT
         /\ okT' = IF e.c = call /\ e.ok THEN okT \cup {e.i} ELSE okT
         /\ failedT' = IF e.c = call /\ ~e.ok THEN failedT \cup {e.i} ELSE failedT
         /\ UNCHANGED <<call, conf, phase, started, pulled, pulling, iterRaised, submitted, batches, preB,
                        doneB, startedT, out, stopped, closing, slices, inSlice, want, polls, quiet, availSeen, d9, sinceY>>
    [] e.ev = "CbEnd" ->
         /\ doneB' = IF Live(e.c) /\ e.ok /\ ~stopped THEN Append(doneB, <<e.lo, e.hi>>) ELSE doneB
         /\ stopped' = (stopped \/ (Live(e.c) /\ ~e.ok /\ ~conf.legacy))
         /\ inSlice' = FALSE /\ quiet' = 0
         /\ UNCHANGED <<call, conf, phase, started, pulled, pulling, iterRaised, submitted, batches, preB,
                        startedT, endedT, okT, failedT, out, closing, slices, want, polls, availSeen, d9, sinceY>>
    [] e.ev = "Poll" ->
         /\ started' = TRUE /\ polls' = polls + 1 /\ quiet' = quiet + 1 /\ inSlice' = FALSE /\ sinceY' = sinceY + 1
         /\ availSeen' = (want /\ HeadAvailable)
         /\ UNCHANGED <<call, conf, phase, pulled, pulling, iterRaised, submitted, batches, preB, doneB,
                        startedT, endedT, okT, failedT, out, stopped, closing, slices, want, d9>>
    [] e.ev = "Next" ->
         /\ want' = TRUE /\ started' = TRUE /\ inSlice' = FALSE /\ availSeen' = HeadAvailable
         /\ UNCHANGED <<call, conf, phase, pulled, pulling, iterRaised, submitted, batches, preB, doneB,
                        startedT, endedT, okT, failedT, out, stopped, closing, slices, polls, quiet, d9, sinceY>>
    [] e.ev = "Yield" ->
         /\ out' = Append(out, e.i) /\ want' = FALSE /\ quiet' = 0 /\ started' = TRUE /\ inSlice' = FALSE /\ sinceY' = 0
         /\ availSeen' = FALSE
         /\ UNCHANGED <<call, conf, phase, pulled, pulling, iterRaised, submitted, batches, preB, doneB,
                        startedT, endedT, okT, failedT, stopped, closing, slices, polls, d9>>
    [] e.ev = "Close" ->
         /\ closing' = TRUE /\ stopped' = TRUE /\ started' = TRUE /\ inSlice' = FALSE
         /\ UNCHANGED <<call, conf, phase, pulled, pulling, iterRaised, submitted, batches, preB, doneB,
                        startedT, endedT, okT, failedT, out, slices, want, polls, quiet, availSeen, d9, sinceY>>
    [] e.ev = "End" ->
         /\ phase' = "ended" /\ want' = FALSE /\ inSlice' = FALSE /\ pulling' = 0
         /\ UNCHANGED <<call, conf, started, pulled, iterRaised, submitted, batches, preB, doneB,
                        startedT, endedT, okT, failedT, out, stopped, closing, slices, polls, quiet, availSeen, d9, sinceY>>

Step(e) == Why(e) = "ok" /\ Apply(e)
=============================================================================
