---------------------------- MODULE BackendMonitor ----------------------------
(***************************************************************************)
(* The backend's side of the life-cycle protocol as pure operators: what a *)
(* pool-owning backend (threading, multiprocessing, loky) may assume about *)
(* the order of the calls it receives.  Used by BackendProtocol (the       *)
(* implementation-shaped model of parallel.py is checked never to breach   *)
(* it) and by BackendMonitorTrace (recorded executions of the real code).  *)
(*   state: pool in {"down","up"}, inCall in BOOLEAN                       *)
(***************************************************************************)
Breach(e, pool, inCall) ==
  CASE e.ev = "Configure" -> IF pool = "down" THEN "ok" ELSE "configure of a live pool"
    [] e.ev = "StartCall" -> IF pool = "up" /\ ~inCall THEN "ok" ELSE "start_call without a pool or inside a call"
    [] e.ev = "Submit"    -> IF pool = "up" /\ inCall THEN "ok" ELSE "submit outside a call"
    [] e.ev = "StopCall"  -> IF inCall THEN "ok" ELSE "stop_call without start_call"
    [] e.ev = "Terminate" -> IF ~inCall THEN "ok" ELSE "terminate inside a call"
    [] e.ev = "Abort"     -> IF pool = "up" THEN "ok" ELSE "abort_everything without a pool"
    [] OTHER -> "ok"
PoolAfter(e, pool) ==
  CASE e.ev = "Configure" -> "up"
    [] e.ev = "Terminate" -> "down"
    [] e.ev = "Abort"     -> IF e.ready THEN "up" ELSE "down"
    [] OTHER -> pool
InCallAfter(e, inCall) ==
  CASE e.ev = "StartCall" -> TRUE
    [] e.ev = "StopCall"  -> FALSE
    [] OTHER -> inCall
\* what the caller may rely on when it has the outcome of a call / left the with block / is done with the object
CleanAt(e, pool, inCall, inWith) ==
  CASE e.ev = "End"  -> IF inCall THEN "call left open (no stop_call)"
                        ELSE IF pool # (IF inWith THEN "up" ELSE "down")
                             THEN (IF inWith THEN "managed pool lost" ELSE "pool left running (no terminate)") ELSE "ok"
    [] e.ev \in {"Exit", "Done"} -> IF inCall THEN "call left open (no stop_call)"
                                    ELSE IF pool # "down" THEN "pool left running (no terminate)" ELSE "ok"
    [] OTHER -> "ok"
=============================================================================
