---------------------------- MODULE LokyExecutor ----------------------------
(***************************************************************************)
(* loky's reusable process executor as used by joblib.Parallel (C10):      *)
(* worker processes, the call queue, the result pipe with its write lock,  *)
(* the executor manager thread that sleeps on {results, wake-up pipe,      *)
(* worker sentinels}, futures, the broken flag, and the caller's           *)
(* retrieval.  The environment may kill workers at any moment (Kills       *)
(* times), including while they hold the result-pipe lock.                 *)
(*   NoHang            every call ends (returned or raised)                *)
(*   NoPartialResults  a call that returns has every result                *)
(*   FailsOnlyOnFault  a call raises only if a worker died during it       *)
(*   NextCallHealthy   after a failed call the next one gets fresh workers *)
(* SpawnFirst = TRUE is the current order in _ensure_executor_running      *)
(* (workers are spawned before the manager thread takes its first sentinel *)
(* snapshot); FALSE is the reordering that loses a death (sensitivity).    *)
(* Environment of the process: ExitKnown = FALSE when the exit status of a  *)
(* dead worker can never be collected (SIGCHLD ignored, another component   *)
(* reaps every child): the manager thread waits for it with bounded         *)
(* patience (Patience = TRUE, current) before it flags the executor.        *)
(* Parents = workers that have child processes of their own when the pool   *)
(* is torn down: kill_process_tree kills the descendants and then the       *)
(* worker itself (KillsSelf = TRUE, current); the manager thread joins the  *)
(* workers before it exits, and the failing call joins the manager thread   *)
(* (executor.shutdown(wait = TRUE) in Parallel._abort).                     *)
(***************************************************************************)
EXTENDS Integers, Sequences, FiniteSets, TLC

CONSTANTS W,          \* worker slots, e.g. {1, 2}
          NT,         \* tasks per call
          Calls, Kills, SpawnFirst,
          FlagFirst,  \* TRUE (current): terminate_broken flags the executor as broken BEFORE failing the pending work items
          ExitKnown, Patience, Parents, KillsSelf

Tasks == 1..NT
VARIABLES ws,        \* [W -> "absent" | "idle" | "running" | "sending" | "dead"]
          wt,        \* [W -> task or 0]
          lock,      \* holder of the result pipe write lock (0 = free); a dead holder never releases it
          queue,     \* call queue (sequence of tasks)
          resq,      \* results sitting in the result pipe
          fut,       \* [Tasks -> "none" | "pending" | "done" | "error"]
          mgr,       \* "absent" | "waiting" | "awake" | "collecting" (exit codes) | "breaking" (inside terminate_broken) | "killing" (kill_workers, join) | "gone" (thread exited)
          snap,      \* workers whose sentinels the sleeping manager thread watches
          wake,      \* wake-up pipe has data
          broken, pc, call, kills, failed, faultInCall, submitted
vars == <<ws, wt, lock, queue, resq, fut, mgr, snap, wake, broken, pc, call, kills, failed, faultInCall, submitted>>

Live == {i \in W : ws[i] \in {"idle", "running", "sending"}}

Init == /\ ws = [i \in W |-> "absent"] /\ wt = [i \in W |-> 0] /\ lock = 0 /\ queue = <<>> /\ resq = {}
        /\ fut = [t \in Tasks |-> "none"] /\ mgr = "absent" /\ snap = {} /\ wake = FALSE /\ broken = FALSE
        /\ pc = "idle" /\ call = 0 /\ kills = 0 /\ failed = 0 /\ faultInCall = FALSE /\ submitted = 0

\* ---- caller (Parallel.__call__ -> get_reusable_executor -> submit ... -> retrieve)
CallBegin ==
  /\ pc = "idle" /\ call < Calls
  /\ call' = call + 1 /\ pc' = "submit" /\ submitted' = 0 /\ faultInCall' = FALSE
  /\ fut' = [t \in Tasks |-> "none"]
  /\ IF broken \/ (\E i \in W : ws[i] = "dead")
     THEN \* a broken / damaged executor is replaced by a new one
          /\ ws' = [i \in W |-> "absent"] /\ wt' = [i \in W |-> 0] /\ lock' = 0 /\ queue' = <<>> /\ resq' = {}
          /\ mgr' = "absent" /\ snap' = {} /\ wake' = FALSE /\ broken' = FALSE
     ELSE UNCHANGED <<ws, wt, lock, queue, resq, mgr, snap, wake, broken>>
  /\ UNCHANGED <<kills, failed>>

Spawn == ws' = [i \in W |-> IF ws[i] = "absent" THEN "idle" ELSE ws[i]]
StartMgr == IF mgr = "absent" THEN mgr' = "waiting" /\ snap' = Live ELSE UNCHANGED <<mgr, snap>>

\* _ensure_executor_running (called by every submit AFTER the work item was queued and the wake-up sent),
\* two steps in the order chosen by SpawnFirst
Ensure1 ==
  /\ pc = "ensure"
  /\ IF SpawnFirst THEN Spawn /\ UNCHANGED <<mgr, snap>> ELSE StartMgr /\ UNCHANGED ws
  /\ pc' = "ensure2"
  /\ UNCHANGED <<wt, lock, queue, resq, fut, wake, broken, call, kills, failed, faultInCall, submitted>>
Ensure2 ==
  /\ pc = "ensure2"
  /\ IF SpawnFirst THEN (IF mgr = "absent" THEN mgr' = "waiting" /\ snap' = {i \in W : ws[i] \in {"idle", "running", "sending", "absent"} /\ ws[i] # "absent"} ELSE UNCHANGED <<mgr, snap>>) /\ UNCHANGED ws
     ELSE Spawn /\ UNCHANGED <<mgr, snap>>
  /\ pc' = IF submitted = NT THEN "retrieve" ELSE "submit"
  /\ UNCHANGED <<wt, lock, queue, resq, fut, wake, broken, call, kills, failed, faultInCall, submitted>>

Submit ==
  /\ pc = "submit" /\ submitted < NT
  /\ submitted' = submitted + 1
  /\ IF broken THEN fut' = [fut EXCEPT ![submitted + 1] = "error"] /\ UNCHANGED queue     \* submit on a broken executor fails at once
     ELSE fut' = [fut EXCEPT ![submitted + 1] = "pending"] /\ queue' = Append(queue, submitted + 1)
  /\ wake' = TRUE
  /\ pc' = "ensure"
  /\ UNCHANGED <<ws, wt, lock, resq, mgr, snap, broken, call, kills, failed, faultInCall>>

Retrieve ==
  /\ pc = "retrieve"
  /\ \/ /\ \E t \in Tasks : fut[t] = "error"
        /\ pc' = "abort" /\ failed' = failed + 1
     \/ /\ \A t \in Tasks : fut[t] = "done"
        /\ pc' = "idle" /\ UNCHANGED failed
  /\ UNCHANGED <<ws, wt, lock, queue, resq, fut, mgr, snap, wake, broken, call, kills, faultInCall, submitted>>

\* Parallel._abort -> backend.abort_everything -> executor.shutdown(kill_workers = TRUE): joins the manager thread
Abort ==
  /\ pc = "abort" /\ mgr \in {"gone", "absent"}
  /\ pc' = "idle"
  /\ UNCHANGED <<ws, wt, lock, queue, resq, fut, mgr, snap, wake, broken, call, kills, failed, faultInCall, submitted>>

\* ---- workers
Take(i) ==
  /\ ws[i] = "idle" /\ queue # <<>>
  /\ ws' = [ws EXCEPT ![i] = "running"] /\ wt' = [wt EXCEPT ![i] = Head(queue)] /\ queue' = Tail(queue)
  /\ UNCHANGED <<lock, resq, fut, mgr, snap, wake, broken, pc, call, kills, failed, faultInCall, submitted>>
Finish(i) ==   \* the task returned; the worker takes the result pipe lock
  /\ ws[i] = "running" /\ lock = 0
  /\ ws' = [ws EXCEPT ![i] = "sending"] /\ lock' = i
  /\ UNCHANGED <<wt, queue, resq, fut, mgr, snap, wake, broken, pc, call, kills, failed, faultInCall, submitted>>
Send(i) ==
  /\ ws[i] = "sending" /\ lock = i
  /\ resq' = resq \cup {wt[i]} /\ lock' = 0 /\ ws' = [ws EXCEPT ![i] = "idle"] /\ wt' = [wt EXCEPT ![i] = 0]
  /\ UNCHANGED <<queue, fut, mgr, snap, wake, broken, pc, call, kills, failed, faultInCall, submitted>>

\* ---- environment
Kill(i) ==
  /\ kills < Kills /\ ws[i] \in {"idle", "running", "sending"}
  /\ ws' = [ws EXCEPT ![i] = "dead"] /\ kills' = kills + 1
  /\ faultInCall' = (faultInCall \/ pc \in {"ensure", "ensure2", "submit", "retrieve"})
  /\ UNCHANGED <<wt, lock, queue, resq, fut, mgr, snap, wake, broken, pc, call, failed, submitted>>

\* ---- executor manager thread
MgrWake ==
  /\ mgr = "waiting" /\ (resq # {} \/ wake \/ (\E i \in snap : ws[i] = "dead"))
  /\ mgr' = "awake" /\ wake' = FALSE
  /\ UNCHANGED <<ws, wt, lock, queue, resq, fut, snap, broken, pc, call, kills, failed, faultInCall, submitted>>
\* terminate_broken is two steps the caller can interleave with: flag the executor as broken (submits fail from then on) and
\* fail every pending future; afterwards every worker is killed and the manager thread exits ("gone")
FailPending == fut' = [t \in Tasks |-> IF fut[t] = "pending" THEN "error" ELSE fut[t]]
MgrStep ==
  /\ mgr = "awake"
  /\ IF \E i \in snap : ws[i] = "dead"
     THEN /\ mgr' = "collecting"        \* wait_result_broken_or_wakeup: get_exitcodes_terminated_worker comes first
          /\ UNCHANGED <<ws, wt, lock, queue, resq, snap, fut, broken>>
     ELSE /\ fut' = [t \in Tasks |-> IF t \in resq /\ fut[t] = "pending" THEN "done" ELSE fut[t]]
          /\ resq' = {} /\ UNCHANGED <<ws, wt, lock, queue, broken>>
          /\ mgr' = "waiting" /\ snap' = {i \in W : ws[i] # "absent"}
  /\ UNCHANGED <<wake, pc, call, kills, failed, faultInCall, submitted>>
MgrCollect ==      \* the exit code is there, or patience runs out (0.25 s); without patience the thread polls for ever
  /\ mgr = "collecting" /\ (ExitKnown \/ Patience)
  /\ mgr' = "breaking"
  /\ IF FlagFirst THEN broken' = TRUE /\ UNCHANGED fut ELSE FailPending /\ UNCHANGED broken
  /\ UNCHANGED <<ws, wt, lock, queue, resq, snap, wake, pc, call, kills, failed, faultInCall, submitted>>
MgrBreak ==
  /\ mgr = "breaking"
  /\ IF FlagFirst THEN FailPending /\ UNCHANGED broken ELSE broken' = TRUE /\ UNCHANGED fut
  \* kill_workers: kill_process_tree for every worker
  /\ ws' = [i \in W |-> IF ws[i] = "absent" THEN "absent" ELSE IF i \in Parents /\ ~KillsSelf THEN ws[i] ELSE "dead"]
  /\ queue' = <<>> /\ resq' = {} /\ mgr' = "killing"
  /\ UNCHANGED <<wt, lock, snap, wake, pc, call, kills, failed, faultInCall, submitted>>
MgrJoin ==         \* process.join() for every worker, then the thread exits
  /\ mgr = "killing" /\ \A i \in W : ws[i] \in {"absent", "dead"}
  /\ mgr' = "gone" /\ snap' = {}
  /\ UNCHANGED <<ws, wt, lock, queue, resq, fut, wake, broken, pc, call, kills, failed, faultInCall, submitted>>

Next == \/ CallBegin \/ Ensure1 \/ Ensure2 \/ Submit \/ Retrieve \/ Abort \/ MgrWake \/ MgrStep \/ MgrCollect \/ MgrBreak \/ MgrJoin
        \/ \E i \in W : Take(i) \/ Finish(i) \/ Send(i) \/ Kill(i)
Fairness == /\ WF_vars(CallBegin \/ Ensure1 \/ Ensure2 \/ Submit \/ Retrieve \/ Abort) /\ WF_vars(MgrWake) /\ WF_vars(MgrStep) /\ WF_vars(MgrCollect) /\ WF_vars(MgrBreak) /\ WF_vars(MgrJoin)
            /\ \A i \in W : WF_vars(Take(i)) /\ WF_vars(Finish(i)) /\ WF_vars(Send(i))
Spec == Init /\ [][Next]_vars /\ Fairness

NoHang == <>[](pc = "idle" /\ call = Calls)
NoPartialResults == [][(pc = "retrieve" /\ pc' = "idle") => \A t \in Tasks : fut[t] = "done"]_vars
FailsOnlyOnFault == [][(failed' = failed + 1) => (faultInCall \/ \E i \in W : ws[i] = "dead")]_vars
AtMostOneFailurePerKill == failed <= kills
=============================================================================
