--------------------------- MODULE ResourceTracker ---------------------------
(* loky's reference-counting resource tracker as seen through its pipe protocol *)
(* and the file system (C20).  Files f1, f2; folder d containing the file g.     *)
EXTENDS Integers, Sequences, FiniteSets, TLC, Json
CONSTANTS Clients, MaxReq, Use,   \* Use: the names requests may mention in this configuration
          Recreate               \* TRUE: the environment may create a path again after it was deleted

Files   == {"f1", "f2", "g"}          \* "g" lives inside folder "d"
Folders == {"d", "e", "h"}            \* folder "e" lives inside folder "d"; "h" is a top-level folder
Names   == Files \cup Folders
RType(x) == IF x \in Folders THEN "folder" ELSE "file"
Inside(x) == IF x \in {"g", "e"} THEN {"d"} ELSE {}

VARIABLES reg,      \* name -> count (absent = not registered)
          exists,   \* names currently on disk
          open,     \* clients still holding the write end
          alive,    \* tracker process alive
          nreq, hist,
          deletedBy \* name -> "count0" | "eof" | "folder" (why it disappeared), for the invariants
vars == <<reg, exists, open, alive, nreq, hist, deletedBy>>

Init == /\ reg = [x \in {} |-> 0] /\ exists = Names /\ open = Clients /\ alive = TRUE
        /\ nreq = 0 /\ hist = <<>> /\ deletedBy = [x \in {} |-> ""]

Count(x) == IF x \in DOMAIN reg THEN reg[x] ELSE 0
Remove(S, why) ==
  /\ exists' = exists \ (S \cup {y \in Names : Inside(y) \cap S # {}})
  /\ deletedBy' = [x \in DOMAIN deletedBy \cup ((S \cup {y \in Names : Inside(y) \cap S # {}}) \cap exists) |->
                     IF x \in DOMAIN deletedBy THEN deletedBy[x]
                     ELSE IF x \in S THEN why ELSE "folder"]
Log(c, cmd, x) == /\ hist' = Append(hist, [c |-> c, cmd |-> cmd, x |-> x, ex |-> exists', cnt |-> [y \in Names |-> IF y \in DOMAIN reg' THEN reg'[y] ELSE 0]])
                  /\ nreq' = nreq + 1

Register(c, x) ==
  /\ alive /\ c \in open /\ nreq < MaxReq
  /\ reg' = [y \in DOMAIN reg \cup {x} |-> IF y = x THEN Count(x) + 1 ELSE reg[y]]
  /\ UNCHANGED <<exists, open, alive, deletedBy>> /\ Log(c, "REGISTER", x)

Unregister(c, x) ==     \* forgets the name whatever its count; KeyError if absent is swallowed
  /\ alive /\ c \in open /\ nreq < MaxReq
  /\ reg' = [y \in DOMAIN reg \ {x} |-> reg[y]]
  /\ UNCHANGED <<exists, open, alive, deletedBy>> /\ Log(c, "UNREGISTER", x)

MaybeUnlink(c, x) ==
  /\ alive /\ c \in open /\ nreq < MaxReq
  /\ IF x \notin DOMAIN reg THEN UNCHANGED <<reg, exists, deletedBy>>        \* KeyError swallowed
     ELSE IF reg[x] > 1 THEN reg' = [reg EXCEPT ![x] = @ - 1] /\ UNCHANGED <<exists, deletedBy>>
     ELSE /\ reg' = [y \in DOMAIN reg \ {x} |-> reg[y]]
          /\ Remove({x}, "count0")                                           \* unlink / rmtree; errors swallowed
  /\ UNCHANGED <<open, alive>> /\ Log(c, "MAYBE_UNLINK", x)

Garbage(c) ==           \* malformed line, unknown resource type, unknown command, non-ascii bytes, empty / blank line
  /\ alive /\ c \in open /\ nreq < MaxReq
  /\ UNCHANGED <<reg, exists, open, alive, deletedBy>> /\ Log(c, "GARBAGE", "-")

Create(x) ==            \* somebody (not the tracker) creates the path again: a deleted name may come back with new content
  /\ Recreate /\ alive /\ nreq < MaxReq /\ x \notin exists /\ Inside(x) \subseteq exists
  /\ exists' = exists \cup {x}
  /\ deletedBy' = [y \in DOMAIN deletedBy \ {x} |-> deletedBy[y]]
  /\ UNCHANGED <<reg, open, alive>> /\ Log(0, "CREATE", x)

ClientGone(c) ==        \* exit or kill -9: the write end closes
  /\ c \in open /\ open' = open \ {c}
  /\ hist' = Append(hist, [c |-> c, cmd |-> "GONE", x |-> "-", ex |-> exists, cnt |-> [y \in Names |-> Count(y)]])
  /\ UNCHANGED <<reg, exists, alive, nreq, deletedBy>>

EOFCleanup ==           \* files first, then folders
  /\ alive /\ open = {}
  /\ alive' = FALSE
  /\ Remove(DOMAIN reg, "eof")
  /\ reg' = [x \in {} |-> 0]
  /\ UNCHANGED <<open, nreq>>
  /\ hist' = Append(hist, [c |-> 0, cmd |-> "EOF", x |-> "-", ex |-> exists', cnt |-> [y \in Names |-> 0]])

Next == \/ \E c \in Clients : \/ \E x \in Use : Register(c, x) \/ Unregister(c, x) \/ MaybeUnlink(c, x)
                              \/ Garbage(c) \/ ClientGone(c)
        \/ EOFCleanup
        \/ \E x \in Use : Create(x)
Spec == Init /\ [][Next]_vars

\* --- the property
\* a path disappears only (a) in the step in which its own count reaches 0, (b) together with its folder,
\* or (c) in the final clean-up while it (or its folder) is still registered
DeletedOnlyWhenDue ==
  [][\A x \in exists \ exists' :
        \/ (x \in DOMAIN reg /\ reg[x] = 1 /\ x \notin DOMAIN reg' /\ alive')
        \/ (\E d \in Inside(x) : d \in exists \ exists')
        \/ (alive /\ ~alive' /\ x \in DOMAIN reg)]_vars
\* and it does disappear when due
DeletedWhenDue ==
  [][\A x \in Names : (/\ Len(hist') > Len(hist) /\ hist'[Len(hist')].cmd = "MAYBE_UNLINK" /\ hist'[Len(hist')].x = x
                         /\ x \in exists /\ Count(x) = 1)
                        => x \notin exists']_vars
SurvivesEverything == (open # {}) => alive
NothingRegisteredSurvivesExit == (~alive) => TRUE
Inv == SurvivesEverything

View == <<reg, exists, open, alive, nreq>>
Emit == (~alive \/ nreq = MaxReq) => PrintT(ToJson(hist))
=============================================================================
